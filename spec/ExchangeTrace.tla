--------------------------- MODULE ExchangeTrace ---------------------------
(***************************************************************************)
(* Trace validation for exchange.py: a batch of executions recorded from   *)
(* the real Exchange (random interleavings of quotes, discontinuations and *)
(* clock moves) is checked line by line against ExchangeOps.  One initial  *)
(* state per trace; every line is consumed; verdict' lists the clauses     *)
(* whose recomputed value differs from the logged one.                     *)
(***************************************************************************)
EXTENDS ExchangeOps, Json, IOUtils

CONSTANT ExpectedStates      \* sum over traces of (number of lines + 1), emitted literally by the harness

Traces == JsonDeserialize(IOEnv.TRACE_FILE)

VARIABLES tid, l, books, gnow, verdict
vars == <<tid, l, books, gnow, verdict>>

Init == /\ tid \in 1..Len(Traces)
        /\ l = 1
        /\ books = [c \in Contracts |-> NewBook]
        /\ gnow = 0
        /\ verdict = <<>>

\* what the spec says a query through key k reports, in the shape the recorder logs it
Obs(bs, now, k) ==
    IF ~Resolvable(k, now) THEN [bid |-> -2, ask |-> -2, alive |-> -2, nh |-> -2, hb |-> -2, ha |-> -2,
                                 buy2 |-> -2, sell2 |-> -2, mid2 |-> -2]
    ELSE LET b == bs[Resolve(k, now)]
             h == IF b.hist = <<>> THEN <<-1, -1, -1>> ELSE b.hist[Len(b.hist)]
         IN  [bid |-> b.bid, ask |-> b.ask, alive |-> IF b.alive THEN 1 ELSE 0, nh |-> Len(b.hist),
              hb |-> h[2], ha |-> h[3], buy2 |-> Acq2(b, 1), sell2 |-> Acq2(b, -1), mid2 |-> Acq2(b, 0)]

Fields == {"bid", "ask", "alive", "nh", "hb", "ha", "buy2", "sell2", "mid2"}

Step ==
    /\ l <= Len(Traces[tid].ops)
    /\ verdict = <<>>
    /\ LET o == Traces[tid].ops[l]
           ok == o.op = "advance" \/ Resolvable(o.k, gnow)
           now1 == IF o.op = "advance" THEN o.t ELSE gnow
           bs1 == IF o.op = "quote" /\ ok THEN [books EXCEPT ![Resolve(o.k, gnow)] = UpdateB(@, o.bid, o.ask, gnow)]
                  ELSE IF o.op = "disc" /\ ok THEN [books EXCEPT ![Resolve(o.k, gnow)] = TerminateB(@, gnow)]
                  ELSE books
           outc == IF ok THEN "ok" ELSE "error"
           bad == {<<k, f>> \in Keys \X Fields : Obs(bs1, now1, k)[f] # o.view[k][f]}
       IN  /\ books' = bs1
           /\ gnow' = now1
           /\ verdict' = (IF o.out # outc THEN <<"outcome">> ELSE <<>>)
                         \o (IF bad = {} THEN <<>> ELSE <<CHOOSE x \in bad : TRUE>>)
    /\ l' = l + 1
    /\ UNCHANGED tid

Next == Step
Accepted == verdict = <<>>
\* every line of every trace was consumed (a truncated or stuck batch cannot pass)
AllConsumed == TLCGet("distinct") = ExpectedStates
=============================================================================
