------------------------------ MODULE EnvPair ------------------------------
(***************************************************************************)
(* C10: two environments A and B living in one process, their reset/step   *)
(* calls interleaved in every order.  The only thing they share is the     *)
(* process-wide contract clock gnow (AbstractContract.now).  Each has a    *)
(* solo twin (A0, B0) that receives exactly the same calls but lives in a  *)
(* process of its own (own clock): the outputs of A must be those of A0    *)
(* whatever B does in between, and conversely.  Resets may come at any     *)
(* time (abandoned and failed episodes).                                   *)
(***************************************************************************)
EXTENDS LedgerOps, TransmitterOps

CONSTANTS Grid, Events, Lats, Delays, Targets, ChainSeq, ChainLtd, ChainExp, ChainOffset, YearLen, Thr, MaxSteps, ResetAnywhere,
          ClockScope, Fractional, Measure, Relative, RuinStep,
          MaxCalls      \* bound on the total number of calls of A and B together

VARIABLES cfgA, envA, stA, hA, trackA, elogA, retA, histA,
          cfgB, envB, stB, hB, trackB, elogB, retB, histB,
          gnow,
          cfgA0, envA0, stA0, hA0, trackA0, elogA0, retA0, histA0, gnowA0,
          cfgB0, envB0, stB0, hB0, trackB0, elogB0, retB0, histB0, gnowB0,
          sched
varsA  == <<cfgA, envA, stA, hA, trackA, elogA, retA, histA>>
varsB  == <<cfgB, envB, stB, hB, trackB, elogB, retB, histB>>
varsA0 == <<cfgA0, envA0, stA0, hA0, trackA0, elogA0, retA0, histA0, gnowA0>>
varsB0 == <<cfgB0, envB0, stB0, hB0, trackB0, elogB0, retB0, histB0, gnowB0>>
vars == <<varsA, varsB, gnow, varsA0, varsB0, sched>>

A  == INSTANCE EnvFull WITH cfg <- cfgA, env <- envA, st <- stA, h <- hA, track <- trackA, elog <- elogA, ret <- retA,
                            hist <- histA, gnow <- gnow
B  == INSTANCE EnvFull WITH cfg <- cfgB, env <- envB, st <- stB, h <- hB, track <- trackB, elog <- elogB, ret <- retB,
                            hist <- histB, gnow <- gnow
A0 == INSTANCE EnvFull WITH cfg <- cfgA0, env <- envA0, st <- stA0, h <- hA0, track <- trackA0, elog <- elogA0,
                            ret <- retA0, hist <- histA0, gnow <- gnowA0
B0 == INSTANCE EnvFull WITH cfg <- cfgB0, env <- envB0, st <- stB0, h <- hB0, track <- trackB0, elog <- elogB0,
                            ret <- retB0, hist <- histB0, gnow <- gnowB0

Init == /\ A!Init /\ B!Init /\ A0!Init /\ B0!Init
        /\ cfgA0 = cfgA /\ cfgB0 = cfgB
        /\ sched = <<>>

CallA == \/ (A!Reset /\ A0!Reset)
         \/ \E tgt \in Targets : A!Step(tgt) /\ A0!Step(tgt)
CallB == \/ (B!Reset /\ B0!Reset)
         \/ \E tgt \in Targets : B!Step(tgt) /\ B0!Step(tgt)

Next == /\ Len(sched) < MaxCalls
        /\ \/ (CallA /\ UNCHANGED <<varsB, varsB0>> /\ sched' = Append(sched, "A"))
           \/ (CallB /\ UNCHANGED <<varsA, varsA0>> /\ sched' = Append(sched, "B"))
Spec == Init /\ [][Next]_vars

\* each environment produces exactly the results it produces when run alone
IsolatedOutputs == histA = histA0 /\ histB = histB0
IsolatedState == stA = stA0 /\ stB = stB0 /\ trackA = trackA0 /\ trackB = trackB0
=============================================================================
