------------------------------ MODULE EnvFull ------------------------------
(***************************************************************************)
(* The environment's event loop (as in Env.tla) composed with the numeric  *)
(* account of LedgerOps: reset, then steps whose decisions are executed by *)
(* the broker at the quotes delivered so far, a track record, rewards, an  *)
(* optional futures chain that rolls.  Bar-shaped streams: a quote for     *)
(* every live contract at every timestep (plus extras).                    *)
(* Decides C07 (track record / rewards), C09 (insolvency), C11 (roll).     *)
(***************************************************************************)
EXTENDS LedgerOps, TransmitterOps

CONSTANTS
    Grid,        \* sequence of timesteps (seconds)
    Events,      \* sequence of events [t, kind, c, bid, ask] (kind "q" or "d"; bid/ask integers), insertion order
    Lats,        \* set of latencies
    Delays,      \* set of execution delays
    Targets,     \* set of target-weight functions [SUBSET (C \cup {"CH"}) -> Rat]; "CH" is the futures-chain key
    ChainSeq,    \* contracts of the chain, ascending last-trading time (<<>> when there is no chain)
    ChainLtd,    \* their last-trading times (seconds)
    ChainExp,    \* their expiry times (seconds)
    ChainOffset, \* month offset of the chain (0: the front contract, 1: the next one ...)
    YearLen,     \* seconds per model year when interest accrues (stamps are multiples of it), 0 when no interest
    Thr,         \* rebalancing threshold (Rat)
    MaxSteps,
    ResetAnywhere, \* BOOLEAN: reset enabled in every phase (abandoned / failed / repeated episodes)
    ClockScope,  \* "process" (pinned code: the chain reads the process-wide contract clock) | "restored_on_entry"
    Fractional,  \* BOOLEAN: the action space trades fractions of a contract (TRUE) or whole lots only
    Measure,     \* "weight": actions are target weights | "lots": actions are target numbers of contracts
    Relative,    \* BOOLEAN: a user-defined space whose actions are CHANGES of the portfolio weights: the target is the
                 \* weights of the account as it stands when the decision is executed, plus the action
    RuinStep     \* "raise" (pinned code) | "done" (the property)

\* gnow is the process-wide contract clock (AbstractContract.now): every notification of ANY environment of the
\* process sets it, and futures chains resolve their lead contract from it
VARIABLES cfg, env, st, h, track, elog, ret, hist, gnow
vars == <<cfg, env, st, h, track, elog, ret, hist, gnow>>

NoT == -1
Ev(i) == [id |-> i, t |-> Events[i].t, kind |-> Events[i].kind, c |-> Events[i].c,
          bid |-> Events[i].bid, ask |-> Events[i].ask]

\* the chain resolves to the listed contract with the earliest last-trading time strictly later than now
FrontIdx(now) == Cardinality({i \in 1..Len(ChainLtd) : ChainLtd[i] <= now}) + 1
LeadIdx(now) == FrontIdx(now) + ChainOffset
LeadOk(now) == LeadIdx(now) <= Len(ChainSeq)

\* TradingEnv.notify restricted to what matters here: clock and books (new-date notifications are Env.tla's)
\* a quote keyed by the chain itself (one continuous front-month series) lands in the book of the contract the chain
\* resolves to at the time of that quote (the clock is advanced before the exchange sees the event)
Notify(s, ev) ==
    LET c   == IF ev.c = "CH" THEN ChainSeq[LeadIdx(ev.t)] ELSE ev.c
        led == IF ev.kind = "q" THEN QuoteF(s.st, c, RM(ev.bid), RM(ev.ask))
               ELSE IF ev.kind = "d" THEN DiscontinueF(s.st, c) ELSE s.st
    IN  [env |-> [s.env EXCEPT !.now = ev.t], st |-> led, log |-> Append(s.log, ev.id), gnow |-> ev.t]

RECURSIVE NotifyAll(_, _)
NotifyAll(s, evs) == IF evs = <<>> THEN s ELSE NotifyAll(Notify(s, Head(evs)), Tail(evs))

Fetch(e) ==
    IF e.k < Len(e.steps)
    THEN LET b == Batch(cfg, cfg.part, e.steps, e.k + 1)
         IN  [e EXCEPT !.k = e.k + 1, !.pendL = b.L, !.pendN = b.N]
    ELSE [e EXCEPT !.pendL = <<>>, !.pendN = <<>>, !.done = TRUE]

NullTarget == <<>>        \* zero weights: everything in cash

\* independent ledger (what was paid, fees, interest), never read by the mechanism
H0 == [paid |-> [c \in C |-> Zero], fees |-> Zero, interest |-> Zero]

Init ==
    /\ \E lat \in Lats, delay \in Delays :
         LET base == [grid |-> Grid, events |-> [i \in 1..Len(Events) |-> Ev(i)], lat |-> lat, fstart |-> 0,
                      fend |-> 2000000000, markov |-> FALSE, warmup |-> -1, eplen |-> 0, delay |-> delay]
             part == Partitions(base)
         IN  cfg = base @@ [part |-> part, fsteps |-> FoldSteps(base, part)]
    /\ env = [steps |-> <<>>, k |-> 0, pendL |-> <<>>, pendN |-> <<>>, now |-> NoT, queue |-> <<>>,
              done |-> FALSE, j |-> 0, ruined |-> FALSE]
    /\ st = InitLedger
    /\ h = H0
    /\ track = <<>>
    /\ elog = <<>>
    /\ ret = [call |-> "none", out |-> "ok", done |-> FALSE]
    /\ hist = <<>>
    /\ gnow = NoT

Reset ==
    /\ (env.k = 0 \/ ResetAnywhere)
    /\ Len(SelectSeq(hist, LAMBDA r : r.call = "reset")) < 2
    /\ LET e0 == [steps |-> cfg.fsteps, k |-> 1, pendL |-> <<>>, pendN |-> <<>>, now |-> NoT,
                  queue |-> [i \in 1..cfg.delay |-> NullTarget], done |-> FALSE, j |-> 0, ruined |-> FALSE]
           b  == Batch(cfg, cfg.part, cfg.fsteps, 1)
           s1 == NotifyAll([env |-> e0, st |-> InitLedger, log |-> <<>>, gnow |-> gnow], SortEv(b.L \o b.N))
           e2 == Fetch(s1.env)
       IN  /\ env' = e2
           /\ st' = s1.st
           /\ gnow' = s1.gnow
           /\ h' = H0
           /\ track' = <<>>
           /\ elog' = s1.log
           /\ ret' = [call |-> "reset", out |-> "ok", done |-> e2.done]
           /\ hist' = Append(hist, [call |-> "reset", target |-> NullTarget, out |-> "ok", done |-> e2.done,
                                    now |-> e2.now, nlv |-> Deposit, pre |-> NaN, post |-> NaN, trades |-> <<>>,
                                    interest |-> Zero, comm |-> Zero, exec |-> NullTarget, pos |-> s1.st.pos,
                                    stamp |-> NoT, entries |-> 0, snap |-> <<>>, traded |-> FALSE, edge |-> {}, spread |-> Zero])
    /\ UNCHANGED cfg

\* independent replay: NLV from deposit, what was paid, fees, interest and the current quotes only
RECURSIVE SumPos(_, _, _)
SumPos(s, hh, cs) ==
    IF cs = {} THEN Zero
    ELSE LET c == CHOOSE x \in cs : TRUE
             v == IF IsZero(s.pos[c]) THEN Zero ELSE Mul(s.pos[c], Liq(s, c))
         IN  Add(Mul(RM(Mult[c]), Sub(v, hh.paid[c])), SumPos(s, hh, cs \ {c}))
Ideal(s, hh) == Add(Sub(Add(Deposit, hh.interest), hh.fees), SumPos(s, hh, C))

\* cost of the bid-ask spread of a set of trades at the quotes of state s: |quantity| x multiplier x (ask - bid)
RECURSIVE SpreadCost(_, _, _)
SpreadCost(s, trades, cs) ==
    IF cs = {} THEN Zero
    ELSE LET c == CHOOSE x \in cs : TRUE
         IN  Add(Mul(Mul(RAbs(trades[c]), RM(Mult[c])), Sub(s.ask[c], s.bid[c])), SpreadCost(s, trades, cs \ {c}))

\* weights keyed by concrete contracts: the chain key becomes its current lead (static_hashing)
Resolved(tgt, now) ==
    LET ks == DOMAIN tgt
        conc == (ks \ {"CH"}) \cup (IF "CH" \in ks THEN {ChainSeq[LeadIdx(now)]} ELSE {})
    IN  [c \in conc |-> IF c \in ks /\ c # "CH" THEN tgt[c] ELSE tgt["CH"]]

AccrualTime(now) == IF YearLen = 0 THEN 0 ELSE now \div YearLen

\* what one step() call does, as a pure function of the current state (evaluated once per successor: the action below
\* binds it through a singleton set, which keeps TLC from re-evaluating the account arithmetic for every primed variable)
StepF(tgt) ==
    IF env.done
    THEN [env |-> env, st |-> st, h |-> h, track |-> track, log |-> <<>>, gnow |-> gnow,
          ret |-> [call |-> "step", out |-> "ended", done |-> TRUE],
          rec |-> [call |-> "step", target |-> tgt, out |-> "ended", done |-> TRUE, now |-> env.now,
                   nlv |-> NaN, pre |-> NaN, post |-> NaN, trades |-> <<>>, interest |-> Zero,
                   comm |-> Zero, exec |-> NullTarget, pos |-> st.pos, stamp |-> NoT, entries |-> Len(track), snap |-> <<>>,
                   traded |-> FALSE, edge |-> {}, spread |-> Zero]]
    ELSE
    LET q1  == <<tgt>> \o env.queue
        due == LastOf(q1)
        e1  == [env EXCEPT !.queue = SubSeq(q1, 1, Len(q1) - 1), !.j = env.j + 1, !.pendL = <<>>]
        s1  == NotifyAll([env |-> e1, st |-> st, log |-> <<>>, gnow |-> gnow], env.pendL)
        now1 == s1.env.now
        \* the clock the chain is resolved with
        lclk == IF ClockScope = "process" THEN s1.gnow ELSE now1
        chainOk == "CH" \notin DOMAIN due \/ LeadOk(lclk)
        \* weight-change spaces read the account after the latent quotes have been applied (holdings_weights marks it)
        vrel == IF Relative THEN ValueF(s1.st, TRUE) ELSE [out |-> "ok", st |-> s1.st, nlv |-> One]
        relOk == vrel.out = "ok"
        talloc == IF ~chainOk \/ ~relOk THEN <<>>
                  ELSE IF Relative
                  THEN [c \in C |-> Add(Div(Notional(vrel.st, c), vrel.nlv), IF c \in DOMAIN due THEN due[c] ELSE Zero)]
                  ELSE Resolved(due, lclk)
        req == [alloc |-> talloc, measure |-> Measure, thr |-> Thr,
                fractional |-> Fractional, absolute |-> TRUE]
        r   == RebalanceF(s1.st, req, AccrualTime(now1))
        executed == r.out = "ok"
        brokeNow == r.out = "broke"
        tradesDone == r.out \in {"ok", "broke"} /\ r.pre # NaN
        h1 == [paid |-> [c \in C |-> IF tradesDone /\ c \in DOMAIN r.trades
                                     THEN Add(h.paid[c], Mul(r.trades[c], AcqPrice(s1.st, c, Sign(r.trades[c]))))
                                     ELSE h.paid[c]],
               fees |-> Add(h.fees, r.comm), interest |-> Add(h.interest, r.interest)]
        hpre == [h EXCEPT !.interest = Add(@, r.interest)]
        track1 == IF executed
                  THEN Append(track, [time |-> now1, pre |-> r.pre, post |-> r.post, trades |-> r.trades,
                                      interest |-> r.interest, comm |-> r.comm, alloc |-> req.alloc,
                                      target |-> due, postpos |-> r.st.pos,
                                      idealPre |-> Ideal(s1.st, hpre), idealPost |-> Ideal(r.st, h1)])
                  ELSE track
        e2  == [s1.env EXCEPT !.done = brokeNow \/ s1.env.done]
        s2  == NotifyAll([env |-> e2, st |-> r.st, log |-> s1.log, gnow |-> s1.gnow], e2.pendN)
        e3a == Fetch(s2.env)
        e3  == [e3a EXCEPT !.done = e3a.done \/ brokeNow]
        v   == ValueF(s2.st, TRUE)                 \* the reward values the account after the step's market events
        ruin == v.out = "broke"
        failed == ~chainOk \/ ~relOk \/ r.out = "error" \/ v.out = "error"
        raises == ~failed /\ ruin /\ RuinStep = "raise"      \* pinned code: EndOfEpisodeError escapes from the reward
        out == IF failed THEN "error" ELSE IF raises THEN "broke" ELSE "ok"
        dn  == IF failed THEN FALSE ELSE IF raises THEN e3.done ELSE (e3.done \/ ruin)
    IN  [env |-> IF failed THEN [e3 EXCEPT !.done = TRUE]
                 ELSE IF raises THEN [e3 EXCEPT !.ruined = TRUE]
                 ELSE [e3 EXCEPT !.done = e3.done \/ ruin, !.ruined = ruin],
         st |-> v.st, h |-> h1, track |-> track1, log |-> s2.log, gnow |-> s2.gnow,
         ret |-> [call |-> "step", out |-> out, done |-> dn],
         rec |-> [call |-> "step", target |-> tgt, out |-> out, done |-> dn, now |-> e3.now,
                  nlv |-> v.nlv, pre |-> IF track1 = <<>> THEN NaN ELSE LastOf(track1).pre, post |-> r.post,
                  trades |-> r.trades, interest |-> r.interest, comm |-> r.comm, exec |-> req.alloc,
                  pos |-> v.st.pos, stamp |-> IF executed THEN now1 ELSE NoT, entries |-> Len(track1),
                  traded |-> tradesDone, edge |-> r.edge,
                  spread |-> IF executed THEN SpreadCost(s1.st, r.trades, DOMAIN r.trades) ELSE Zero,
                  snap |-> IF executed THEN [prepos |-> r.prest.pos, precash |-> r.prest.cash, premrg |-> r.prest.mrg,
                                             postpos |-> r.postst.pos, postcash |-> r.postst.cash, postmrg |-> r.postst.mrg]
                           ELSE <<>>]]

Step(tgt) ==
    /\ env.k > 0
    /\ env.j < MaxSteps
    /\ (ret.out \notin {"ended", "error"} \/ ret.call = "reset")   \* one refused call is enough; nothing is specified after a failure
    /\ \E res \in {StepF(tgt)} :
          /\ env' = res.env /\ st' = res.st /\ h' = res.h /\ track' = res.track
          /\ elog' = elog \o res.log /\ gnow' = res.gnow /\ ret' = res.ret
          /\ hist' = Append(hist, res.rec)
    /\ UNCHANGED cfg

Next == Reset \/ \E tgt \in Targets : Step(tgt)
Spec == Init /\ [][Next]_vars

-----------------------------------------------------------------------------
Last == LastOf(hist)
Stepped == hist # <<>> /\ Last.call = "step"

\* C07 ----------------------------------------------------------------
\* one entry per executed decision, strictly increasing stamps
OneEntryPerExec ==
    Len(track) = Cardinality({i \in 1..Len(hist) : hist[i].call = "step" /\ hist[i].stamp # NoT})
StrictTimes == \A i \in 1..(Len(track) - 1) : track[i].time < track[i + 1].time

\* every pre- and post-trade NLV the track record reports is what the independent ledger gives at that
\* moment, and so is the account's NLV in every reachable state
LedgerReplay ==
    /\ \A i \in 1..Len(track) : track[i].pre = track[i].idealPre /\ track[i].post = track[i].idealPost
    /\ Valuable(st) => NlvOf(st) = Ideal(st, h)
    /\ (Stepped /\ Last.out = "ok" /\ Valuable(st)) => Last.nlv = Ideal(st, h)

\* reward inputs: NLV after the step's market events, and the pre-trade NLV of the latest entry
RewardDef ==
    (Stepped /\ Last.out = "ok" /\ Len(track) > 0) => Last.pre = LastOf(track).pre

\* no interest, no latency: simple returns compound to final / initial NLV, i.e. consecutive entries chain:
\* the NLV the reward of step k used = the pre-trade NLV of step k+1 (nothing moves between the two)
Compounding ==
    (cfg.lat = 0 /\ YearLen = 0) =>
        \A i \in 2..Len(hist) :
            (hist[i].call = "step" /\ hist[i - 1].call = "step" /\ hist[i].stamp # NoT /\ hist[i - 1].out = "ok"
                /\ hist[i].out = "ok" /\ hist[i].entries = hist[i - 1].entries + 1)
              => hist[i].pre = hist[i - 1].nlv

\* C09 ----------------------------------------------------------------
\* a decision arriving with NLV <= 0 executes nothing and ends the episode
BrokeNeverTrades ==
    [][ (hist' # hist /\ LastOf(hist').call = "step" /\ Valuable(st) /\ ~env.done
            /\ LET s1 == NotifyAll([env |-> env, st |-> st, log |-> <<>>], env.pendL).st
               IN  Valuable(s1) /\ Le(NlvOf(s1), Zero))
          => (track' = track /\ LastOf(hist').stamp = NoT /\ env'.done) ]_vars

\* the step during which the account becomes insolvent reports done instead of failing
RuinStepReturnsDone ==
    (Stepped /\ env.ruined /\ Last.out # "ended") => (Last.out = "ok" /\ Last.done)

DoneIsAbsorbing ==
    [][ (env.done /\ hist' # hist) => (LastOf(hist').out = "ended" /\ st' = st /\ track' = track) ]_vars

\* insolvent at the end of a step => the episode is over
BrokeEndsEpisode == (Stepped /\ Valuable(st) /\ Le(NlvOf(st), Zero) /\ Last.out = "ok") => env.done

\* C11 ----------------------------------------------------------------
ChainSet == {ChainSeq[i] : i \in 1..Len(ChainSeq)}
\* after a rebalance that targets the chain only its current lead is held
OnlyLeadHeld ==
    \A m \in 1..Len(track) :
        "CH" \in DOMAIN track[m].target =>
            \A f \in ChainSet : f # ChainSeq[LeadIdx(track[m].time)] => IsZero(track[m].postpos[f])

\* a contract is not held at or after its expiry provided some (executed) step falls in [last trading, expiry):
\* it is closed by that step and never re-opened
NoHoldAtExpiry ==
    \A i \in 1..Len(ChainSeq) :
        (\E m \in 1..Len(track) : track[m].time >= ChainLtd[i] /\ track[m].time < ChainExp[i])
          => IsZero(st.pos[ChainSeq[i]])

\* the lead only moves forward
LeadForward == [][ (env.now # NoT /\ env'.now # NoT /\ env'.now >= env.now) => LeadIdx(env'.now) >= LeadIdx(env.now) ]_vars
=============================================================================
