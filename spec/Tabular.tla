------------------------------ MODULE Tabular ------------------------------
(***************************************************************************)
(* TradingEnvXY (env.py): which dates are steps and which rows of the      *)
(* published feature table an observation shows.  The model works on       *)
(* INDICES (day numbers), not values: a feature table indexed by DX, a     *)
(* price table indexed by DY, exchange holidays, window, stride, optional  *)
(* start / end bounds.  Decides C18 (and the tabular half of C02 through   *)
(* paired runs generated from these configurations).                       *)
(*                                                                         *)
(* Day numbers count calendar days from a Monday chosen by the harness;    *)
(* only business days carry rows.                                          *)
(***************************************************************************)
EXTENDS Integers, Sequences, FiniteSets, TLC

CONSTANTS
    NDays,        \* calendar days 1..NDays (day 1 is a Monday)
    Holidays,     \* set of day numbers on which the exchange is closed (taken from the calendar library)
    Windows,      \* set of window sizes
    Strides,      \* set of strides (0 = none)
    MissX, MissY, \* sets of sets of business days missing from the feature / price table
    YRanges,      \* set of <<first, last>> day of the price table
    Folds,        \* set of <<first, last>> day of the fold an episode is run in (<<0, 0>>: the default fold, everything)
    Bounds,       \* set of <<start, end>> bounds (0 = not given)
    Carrier       \* "weekdays": index numbers are calendar days and only Monday..Friday carry rows | "all": index numbers are
                  \* ranks of arbitrary (e.g. intraday) stamps and every one may carry a row

BDays == IF Carrier = "all" THEN 1..NDays ELSE {d \in 1..NDays : (d - 1) % 7 < 5}

RECURSIVE SeqOfSet(_)
SeqOfSet(S) == IF S = {} THEN <<>>
               ELSE LET m == CHOOSE x \in S : \A y \in S : x <= y IN <<m>> \o SeqOfSet(S \ {m})
SetMin(S) == CHOOSE x \in S : \A y \in S : x <= y
SetMax(S) == CHOOSE x \in S : \A y \in S : x >= y
Drop(s, k) == IF k >= Len(s) THEN <<>> ELSE SubSeq(s, k + 1, Len(s))
PosOf(s, x) == CHOOSE i \in 1..Len(s) : s[i] = x

\* ---- the mechanism of TradingEnvXY.__init__ / _make_timesteps on index sets ----------------------
\* p = [dx, dy, w, s, start, end]
Prep(p) ==
    LET ymin  == SetMin(p.dy)
        ymax  == SetMax(p.dy)
        st0   == IF p.start = 0 THEN ymin ELSE IF p.start > ymin THEN p.start ELSE ymin
        en    == IF p.end = 0 THEN ymax ELSE IF p.end < ymax THEN p.end ELSE ymax
        xi    == SeqOfSet({d \in p.dx \cup p.dy : d <= en})          \* re-indexed on the union, cut at `end`
        inr(a) == {d \in {xi[i] : i \in 1..Len(xi)} : a <= d /\ d <= en}
        ok0   == inr(st0) # {}
        t0    == SetMin(inr(st0))
        w0    == PosOf(xi, t0) - p.w + 1                                \* 1-based position of the first row kept
        \* not enough rows before the start: postpone the start by the missing number of price dates
        ydates == SeqOfSet({d \in p.dy : st0 <= d /\ d <= en})
        need  == 1 - w0
        st1   == IF w0 >= 1 THEN st0 ELSE IF need + 1 <= Len(ydates) THEN ydates[need + 1] ELSE 0
        t1    == IF st1 = 0 \/ inr(st1) = {} THEN 0 ELSE SetMin(inr(st1))
        w1    == IF t1 = 0 THEN 0 ELSE PosOf(xi, t1) - p.w + 1
        px    == IF ~ok0 \/ t1 = 0 \/ w1 < 1 THEN <<>> ELSE Drop(xi, w1 - 1)
        yy    == {d \in p.dy : st1 <= d /\ d <= en}
    IN  [ok |-> ok0 /\ px # <<>> /\ yy # {}, px |-> px, yy |-> yy, start |-> st1, end |-> en]

StepsOf(p, pr) ==
    LET pxs == {pr.px[i] : i \in 1..Len(pr.px)}
        s0  == IF SetMin(pxs) > SetMin(pr.yy) THEN SetMin(pxs) ELSE SetMin(pr.yy)
        e0  == IF SetMax(pxs) < SetMax(pr.yy) THEN SetMax(pxs) ELSE SetMax(pr.yy)
        yt  == SeqOfSet({d \in pr.yy : s0 <= d /\ d <= e0 /\ d \notin Holidays})
    IN  Drop(yt, p.w)

\* rows of the published table an observation at step t shows: dated <= t, the last `w`, thinned from the
\* most recent backwards by the stride
RowsAt(p, pr, t) ==
    LET upto == SelectSeq(pr.px, LAMBDA d : d <= t)
        lastw == IF Len(upto) >= p.w THEN SubSeq(upto, Len(upto) - p.w + 1, Len(upto)) ELSE upto
        keep == IF p.s = 0 THEN 1..Len(lastw) ELSE {i \in 1..Len(lastw) : (Len(lastw) - i) % p.s = 0}
    IN  [i \in 1..Cardinality(keep) |-> lastw[SeqOfSet(keep)[i]]]

VARIABLES p, out

Init ==
    /\ \E mx \in MissX, my \in MissY, yr \in YRanges, w \in Windows, s \in Strides, b \in Bounds, f \in Folds :
          /\ p = [dx |-> BDays \ mx, dy |-> {d \in BDays : yr[1] <= d /\ d <= yr[2]} \ my, w |-> w, s |-> s,
                  start |-> b[1], end |-> b[2], fold |-> f]
    /\ p.dy # {}
    /\ LET pr == Prep(p)
       IN  out = IF ~pr.ok THEN [ok |-> FALSE, px |-> <<>>, steps |-> <<>>, rows |-> <<>>]
                 ELSE LET all == StepsOf(p, pr)
                          \* an episode run in a fold visits the steps inside the fold's window only
                          st == IF p.fold = <<0, 0>> THEN all
                                ELSE SelectSeq(all, LAMBDA d : p.fold[1] <= d /\ d <= p.fold[2])
                      IN  [ok |-> TRUE, px |-> pr.px, steps |-> st, rows |-> [k \in 1..Len(st) |-> RowsAt(p, pr, st[k])]]
Next == UNCHANGED <<p, out>>

-----------------------------------------------------------------------------
Ceil(a, b) == (a + b - 1) \div b
PxSet == {out.px[i] : i \in 1..Len(out.px)}

\* steps occur only on price dates that are not holidays, in increasing order, inside the bounds
StepsDef ==
    out.ok => /\ \A k \in 1..Len(out.steps) :
                    /\ out.steps[k] \in p.dy /\ out.steps[k] \notin Holidays
                    /\ (p.start # 0 => out.steps[k] >= p.start) /\ (p.end # 0 => out.steps[k] <= p.end)
              /\ \A k \in 1..(Len(out.steps) - 1) : out.steps[k] < out.steps[k + 1]

\* never before a full window of features is available
NoStepBeforeWindow ==
    out.ok => \A k \in 1..Len(out.steps) : Cardinality({d \in PxSet : d <= out.steps[k]}) >= p.w

\* the observation has the declared shape and shows rows dated at or before the step, the most recent one included
ObsShape ==
    out.ok => \A k \in 1..Len(out.steps) :
        /\ Len(out.rows[k]) = (IF p.s = 0 THEN p.w ELSE Ceil(p.w, p.s))
        /\ \A i \in 1..Len(out.rows[k]) : out.rows[k][i] <= out.steps[k]
        /\ out.rows[k][Len(out.rows[k])] = SetMax({d \in PxSet : d <= out.steps[k]})
        /\ out.steps[k] \in PxSet                   \* the published table has a row on every step date
=============================================================================
