-------------------------------- MODULE Env --------------------------------
(***************************************************************************)
(* The event loop of tradingenv.TradingEnv over a Transmitter: reset and   *)
(* step as the code performs them (env.py reset/step/notify,               *)
(* transmitter.py _reset/_next), with the account abstracted to "an        *)
(* execution happened here with these quotes".  Decides C04 C08 C15 C17.   *)
(*                                                                         *)
(* One behaviour = one configuration (chosen in Init from the candidate    *)
(* constants) driven through any sequence of reset / step calls.           *)
(*                                                                         *)
(*   cfg   configuration + the derived partitions and fold steps           *)
(*   env   the environment's own state between two calls                   *)
(*   elog  every notification delivered since the last reset:              *)
(*         [kind, id, t, clk, call, pre]  (clk = the env clock while the   *)
(*         observers were called; call = 0 for reset, j for the j-th step; *)
(*         pre = delivered before that call's execution)                   *)
(*   execs executions since the last reset: [call, act, cls, stamp, books] *)
(*   ret   outcome of the last call [call, out, done, now]                 *)
(*   hist  the calls since Init, what the harness replays                  *)
(***************************************************************************)
EXTENDS TransmitterOps

CONSTANTS
    Grid,        \* sequence of timesteps (sorted, distinct)
    Cand,        \* sequence of candidate events [t, kind, c, bid, ask]; ids are positions in Cand
    Mandatory,   \* set of candidate indices present in every configuration
    MaxOpt,      \* at most this many optional candidates per configuration
    Lats,        \* set of latencies
    Folds,       \* set of <<fstart, fend>>
    Modes,       \* set of [markov : BOOLEAN, warmup : Int]
    Delays,      \* set of execution delays
    EpLens,      \* set of episode lengths configured at construction (0 = whole fold)
    ResetLens,   \* set of episode_length arguments passed to reset() (0 = none; k >= 2 means k states = k - 1 decisions)
    Spaces,      \* subset of {"box", "discrete"}
    Bads,        \* set of [at : Nat, cls : STRING]: a malformed action of class cls submitted at step `at` (at = 0: none)
    DayLen,      \* time units per calendar day (86400 when times are seconds; finer units for sub-second lattices)
    MaxCalls,    \* bound on the number of reset/step calls in a behaviour
    ResetAnywhere,  \* BOOLEAN: reset enabled in every phase (repeated / abandoned episodes)
    ClockRule,   \* "before_newdate" (pinned code) | "after_newdate" (the property)
    HistoryOrder,\* "latent_first"   (pinned code) | "by_time" (the property)
    NullRule,    \* "float"          (pinned code) | "in_space" (the property)
    StartStride  \* exploration bound: 1 = every valid start is explored, k = every k-th (and the last) one

VARIABLES cfg, env, elog, execs, ret, hist, ncalls
vars == <<cfg, env, elog, execs, ret, hist, ncalls>>

NoTime == -1
MarketKinds == {"q", "x", "d"}

Ev(i) == [id |-> i, t |-> Cand[i].t, kind |-> Cand[i].kind, c |-> Cand[i].c,
          bid |-> Cand[i].bid, ask |-> Cand[i].ask]

-----------------------------------------------------------------------------
\* TradingEnv.notify: new-date notification, clock, dispatch.  st = [env, log]

Notify(s, ev, call, pre) ==
    LET e == s.env
        newdate == e.lastEv # NoTime /\ (e.lastEv \div DayLen) # (ev.t \div DayLen)
        log1 == IF newdate
                THEN Append(s.log, [kind |-> "newdate", id |-> 0, t |-> e.lastEv, clk |-> e.lastEv,
                                    call |-> call, pre |-> pre])
                ELSE s.log
        \* pinned code: the clock is set first and then overwritten by the recursive new-date notification
        clk == IF newdate /\ ClockRule = "before_newdate" THEN e.lastEv ELSE ev.t
        books1 == IF ev.kind = "q" /\ e.books[ev.c].alive
                  THEN [e.books EXCEPT ![ev.c] = [bid |-> ev.bid, ask |-> ev.ask, alive |-> TRUE]]
                  ELSE IF ev.kind = "d"
                  THEN [e.books EXCEPT ![ev.c] = [bid |-> 0, ask |-> 0, alive |-> FALSE]]
                  ELSE e.books
    IN  [env |-> [e EXCEPT !.now = clk, !.lastEv = ev.t, !.books = books1],
         log |-> Append(log1, [kind |-> ev.kind, id |-> ev.id, t |-> ev.t, clk |-> clk,
                               call |-> call, pre |-> pre])]

RECURSIVE NotifyAll(_, _, _, _)
NotifyAll(s, evs, call, pre) ==
    IF evs = <<>> THEN s ELSE NotifyAll(Notify(s, Head(evs), call, pre), Tail(evs), call, pre)

EnvEvent(kind, t) == [id |-> 0, t |-> t, kind |-> kind, c |-> "-", bid |-> 0, ask |-> 0]

\* _process_nonlatent_events: deliver, then fetch the next batch (StopIteration => done)
Fetch(e) ==
    IF e.k < Len(e.steps)
    THEN LET b == Batch(cfg, cfg.part, e.steps, e.k + 1)
         IN  [e EXCEPT !.k = e.k + 1, !.pendL = b.L, !.pendN = b.N]
    ELSE [e EXCEPT !.pendL = <<>>, !.pendN = <<>>, !.done = TRUE]

Contracts == {Cand[i].c : i \in {j \in 1..Len(Cand) : Cand[j].kind \in {"q", "d"}}}

FreshEnv(steps) ==
    [steps |-> steps, k |-> 0, pendL |-> <<>>, pendN |-> <<>>, now |-> NoTime, lastEv |-> NoTime,
     queue |-> [i \in 1..cfg.delay |-> [id |-> 0, cls |-> IF cfg.space = "discrete" /\ NullRule = "float"
                                                             THEN "null_float" ELSE "ok"]],
     books |-> [c \in Contracts |-> [bid |-> 0, ask |-> 0, alive |-> TRUE]],
     done |-> FALSE, dead |-> FALSE, j |-> 0, eplen |-> 0]

-----------------------------------------------------------------------------
Call(rec) == /\ hist' = Append(hist, rec)
             /\ ncalls' = ncalls + 1

\* reset as a pure function of (cfg, start); the action binds it once through a singleton set
\* (TLC re-evaluates LET definitions for every reference inside an action)
\* episode length in decisions in force for a reset: the argument of reset() wins over the constructor's
EffLen(rl) == IF rl > 0 THEN rl - 1 ELSE cfg.eplen
CfgFor(rl) == [cfg EXCEPT !.eplen = EffLen(rl)]

\* exploration bound for long folds: only every StartStride-th valid start (and the last one) is explored; what the
\* invariants say about the SET of valid starts is not affected
Explored(S) == IF StartStride = 1 THEN S
               ELSE {x \in S : (x - 1) % StartStride = 0 \/ \A y \in S : y <= x}

ResetF(start, rl) ==
    LET steps == EpisodeSteps(CfgFor(rl), cfg.fsteps, start)
        e0 == [FreshEnv(steps) EXCEPT !.eplen = EffLen(rl)]
        b  == Batch(cfg, cfg.part, steps, 1)
        e1 == [e0 EXCEPT !.k = 1]
        hist0 == IF HistoryOrder = "by_time" THEN SortEv(b.L \o b.N) ELSE b.L \o b.N
        s1 == NotifyAll([env |-> e1, log |-> <<>>], hist0, 0, FALSE)
        e2 == Fetch(s1.env)
        s2 == Notify([env |-> e2, log |-> s1.log], EnvEvent("reset", e2.now), 0, FALSE)
    IN  IF e2.done THEN Notify(s2, EnvEvent("done", s2.env.now), 0, FALSE) ELSE s2

DoReset(start, rl) ==
    \E s3 \in {ResetF(start, rl)} :
        /\ env' = s3.env
        /\ elog' = s3.log
        /\ execs' = <<>>
        /\ ret' = [call |-> 0, out |-> "ok", done |-> s3.env.done, now |-> s3.env.now]
        /\ Call([call |-> "reset", start |-> start, act |-> [id |-> rl, cls |-> "ok"], out |-> "ok",
                 done |-> s3.env.done, now |-> s3.env.now, log |-> s3.log, exec |-> <<>>])

Reset ==
    /\ ncalls < MaxCalls
    /\ (ResetAnywhere \/ env.k = 0 \/ env.done \/ env.dead)
    /\ \E rl \in ResetLens :
         IF ValidStarts(CfgFor(rl), cfg.fsteps) = {} \/ cfg.fsteps = <<>>
         THEN \* refused: nothing changes
              /\ UNCHANGED <<env, elog, execs>>
              /\ ret' = [call |-> 0, out |-> "error", done |-> FALSE, now |-> NoTime]
              /\ Call([call |-> "reset", start |-> 0, act |-> [id |-> rl, cls |-> "ok"], out |-> "error",
                       done |-> FALSE, now |-> NoTime, log |-> <<>>, exec |-> <<>>])
         ELSE \E start \in Explored(ValidStarts(CfgFor(rl), cfg.fsteps)) : DoReset(start, rl)
    /\ UNCHANGED cfg

\* the j-th step of the episode submits action j (class ok unless it is the configured malformed one)
Action(j) == [id |-> j, cls |-> IF cfg.bad.at = j THEN cfg.bad.cls ELSE "ok"]

\* one step() call as a pure function: [env, log, execs, ret, rec]
StepF ==
    LET j == env.j + 1
        a == Action(j)
    IN  IF env.done
        THEN [env |-> env, log |-> <<>>, execs |-> execs,
              ret |-> [call |-> j, out |-> "ended", done |-> TRUE, now |-> env.now],
              rec |-> [call |-> "step", start |-> 0, act |-> a, out |-> "ended", done |-> TRUE,
                       now |-> env.now, log |-> <<>>, exec |-> <<>>]]
        ELSE
        LET q1  == <<a>> \o env.queue               \* appendleft
            due == LastOf(q1)                        \* pop
            e1  == [env EXCEPT !.queue = SubSeq(q1, 1, Len(q1) - 1), !.j = j]
            s1  == NotifyAll([env |-> [e1 EXCEPT !.pendL = <<>>], log |-> <<>>], e1.pendL, j, TRUE)
        IN  IF due.cls # "ok"
            THEN \* make_rebalancing_request rejects it: the exception leaves step() here
                 [env |-> [s1.env EXCEPT !.dead = TRUE], log |-> s1.log, execs |-> execs,
                  ret |-> [call |-> j, out |-> "error", done |-> FALSE, now |-> s1.env.now],
                  rec |-> [call |-> "step", start |-> 0, act |-> a, out |-> "error", done |-> FALSE,
                           now |-> s1.env.now, log |-> s1.log, exec |-> <<>>]]
            ELSE
            LET x  == [call |-> j, act |-> due.id, stamp |-> s1.env.now, books |-> s1.env.books]
                s2 == NotifyAll(s1, s1.env.pendN, j, FALSE)
                e3 == Fetch(s2.env)
                s3 == Notify([env |-> e3, log |-> s2.log], EnvEvent("step", e3.now), j, FALSE)
                s4 == IF e3.done THEN Notify(s3, EnvEvent("done", s3.env.now), j, FALSE) ELSE s3
            IN  [env |-> s4.env, log |-> s4.log, execs |-> Append(execs, x),
                 ret |-> [call |-> j, out |-> "ok", done |-> s4.env.done, now |-> s4.env.now],
                 rec |-> [call |-> "step", start |-> 0, act |-> a, out |-> "ok", done |-> s4.env.done,
                          now |-> s4.env.now, log |-> s4.log, exec |-> <<x>>]]

Step ==
    /\ ncalls < MaxCalls
    /\ env.k > 0 /\ ~env.dead
    /\ \E r \in {StepF} :
          /\ env' = r.env
          /\ elog' = elog \o r.log
          /\ execs' = r.execs
          /\ ret' = r.ret
          /\ Call(r.rec)
    /\ UNCHANGED cfg

Next == Reset \/ Step

-----------------------------------------------------------------------------
\* configurations

OptIdx == (1..Len(Cand)) \ Mandatory

\* two consecutive executions must not carry the same stamp (TrackRecord rejects duplicate times):
\* the clock has to advance between them, i.e. some event is delivered in between
Advancing(c) ==
    \A k \in 2..(Len(c.fsteps) - 1) :
        c.part.N[c.fsteps[k]] # <<>> \/ c.part.L[c.fsteps[k + 1]] # <<>>

MkCfg(evs, lat, fold, mode, delay, eplen, space, bad) ==
    LET ids  == SelectSeq([i \in 1..Len(Cand) |-> i], LAMBDA i : i \in evs)
        base == [grid |-> Grid, events |-> [j \in 1..Len(ids) |-> Ev(ids[j])],
                 lat |-> lat, fstart |-> fold[1], fend |-> fold[2], markov |-> mode.markov,
                 warmup |-> mode.warmup, delay |-> delay, eplen |-> eplen, space |-> space, bad |-> bad]
        part == Partitions(base)
    IN  base @@ [part |-> part, fsteps |-> FoldSteps(base, part)]

Init ==
    /\ \E opt \in SUBSET OptIdx, lat \in Lats, fold \in Folds, mode \in Modes, delay \in Delays,
          eplen \in EpLens, space \in Spaces, bad \in Bads :
          /\ Cardinality(opt) <= MaxOpt
          /\ cfg = MkCfg(Mandatory \cup opt, lat, fold, mode, delay, eplen, space, bad)
    /\ Advancing(cfg)
    /\ env = [steps |-> <<>>, k |-> 0, pendL |-> <<>>, pendN |-> <<>>, now |-> NoTime, lastEv |-> NoTime,
              queue |-> <<>>, books |-> [c \in Contracts |-> [bid |-> 0, ask |-> 0, alive |-> TRUE]],
              done |-> FALSE, dead |-> FALSE, j |-> 0, eplen |-> 0]
    /\ elog = <<>>
    /\ execs = <<>>
    /\ ret = [call |-> 0, out |-> "none", done |-> FALSE, now |-> NoTime]
    /\ hist = <<>>
    /\ ncalls = 0

Spec == Init /\ [][Next]_vars
\* liveness: if the caller keeps stepping, every episode ends (checked without any state constraint; MaxCalls must exceed
\* the longest episode of the model, otherwise the bound itself stops the caller)
FairSpec == Spec /\ WF_vars(Step)
EpisodeEnds == (env.k > 0) ~> (env.done \/ env.dead \/ ncalls = MaxCalls)

-----------------------------------------------------------------------------
\* Declarative statement of the properties, from cfg alone (not from the mechanism above)

Running == env.k > 0
Steps == env.steps                          \* grid indices visited by the episode; reset lands on Steps[1]
TimeOf(i) == cfg.grid[i]
EvById(i) == CHOOSE e \in Range(cfg.events) : e.id = i
MarketLog == SelectSeq(elog, LAMBDA r : r.kind \in MarketKinds)
Count(i) == Len(SelectSeq(elog, LAMBDA r : r.kind \in MarketKinds /\ r.id = i))

InGrid(e) == e.t <= LastOf(cfg.grid)
SlotOf(e) == SlotIdx(cfg.grid, e.t)
\* the call that lands on the event's slot: 0 for the first timestep of the episode and for history
CallOf(e) == IF SlotOf(e) <= Steps[1] THEN 0
             ELSE (CHOOSE k \in 1..Len(Steps) : Steps[k] = SlotOf(e)) - 1
InEpisode(e) == InGrid(e) /\ SlotOf(e) >= Steps[1] /\ SlotOf(e) <= LastOf(Steps)
IsHistory(e) == InGrid(e) /\ SlotOf(e) < Steps[1]
\* history is replayed in full, within the warm-up horizon, or not at all
HistoryDue(e) == IsHistory(e) /\ ~cfg.markov
                    /\ (cfg.warmup < 0 \/ TimeOf(SlotOf(e)) >= TimeOf(Steps[1]) - cfg.warmup)
HistoryBanned(e) == IsHistory(e) /\ (cfg.markov \/ (cfg.warmup >= 0 /\ TimeOf(SlotOf(e)) < TimeOf(Steps[1]) - cfg.warmup))
\* under markov reset the code drops events older than the first timestep of the grid altogether
MarkovDropped(e) == cfg.markov /\ e.t < cfg.grid[1]
Due(e) == (InEpisode(e) /\ ~MarkovDropped(e)) \/ HistoryDue(e)
\* warm-up: an event stamped before the horizon whose timestep is inside it - the statement does not say
Soft(e) == IsHistory(e) /\ cfg.warmup >= 0 /\ ~cfg.markov /\ e.t < TimeOf(Steps[1]) - cfg.warmup
              /\ TimeOf(SlotOf(e)) >= TimeOf(Steps[1]) - cfg.warmup

CallsDone == env.j         \* index of the last call of the episode that processed events

\* C04 ------------------------------------------------------------------
ExactlyOnce ==
    Running => \A e \in Range(cfg.events) :
        /\ Count(e.id) <= 1
        /\ Count(e.id) = 1 => (Due(e) /\ CallOf(e) <= CallsDone)                       \* never early, never late
        /\ (Due(e) /\ ~Soft(e) /\ CallOf(e) <= CallsDone /\ ~env.dead) => Count(e.id) = 1       \* complete

OnTime ==
    Running => \A i \in 1..Len(elog) :
        elog[i].kind \in MarketKinds => elog[i].call = CallOf(EvById(elog[i].id))

InOrder ==
    \A i \in 1..(Len(elog) - 1) :
        /\ elog[i].t <= elog[i + 1].t
        /\ (elog[i].kind \in MarketKinds /\ elog[i + 1].kind \in MarketKinds /\ elog[i].t = elog[i + 1].t)
              => elog[i].id < elog[i + 1].id

\* time of the latest market event delivered strictly before position i of the log
LatestBefore(i) ==
    LET S == {j \in 1..(i - 1) : elog[j].kind \in MarketKinds}
    IN  IF S = {} THEN NoTime ELSE elog[CHOOSE j \in S : \A m \in S : m <= j].t

ClockIsLatest ==
    /\ \A i \in 1..Len(elog) :
          /\ elog[i].clk = elog[i].t
          /\ elog[i].kind \notin MarketKinds => elog[i].t = LatestBefore(i)
    /\ (Running /\ Len(elog) > 0) => env.now = LatestBefore(Len(elog) + 1)

LatencyRule ==
    \A i \in 1..Len(elog) :
        (elog[i].kind \in MarketKinds /\ elog[i].call > 0) => (elog[i].pre <=> IsLatentEv(cfg, EvById(elog[i].id)))

\* C08 ------------------------------------------------------------------
FifoDelay ==
    \A i \in 1..Len(execs) :
        /\ execs[i].call = i
        /\ execs[i].act = IF i > cfg.delay THEN i - cfg.delay ELSE 0

\* the books an execution sees = the last quote per contract among the events stamped up to
\* (timestep before the execution) + latency that the episode delivers at all
AppliedBefore(j) ==
    {e \in Range(cfg.events) : Due(e) /\ ~Soft(e) /\ (CallOf(e) < j \/ (CallOf(e) = j /\ IsLatentEv(cfg, e)))}

ExpectedBook(j, c) ==
    LET S  == {e \in AppliedBefore(j) : e.c = c /\ e.kind \in {"q", "d"}}
        dd == {e \in S : e.kind = "d"}
    IN  IF S = {} THEN [bid |-> 0, ask |-> 0, alive |-> TRUE]
        ELSE IF dd # {} THEN [bid |-> 0, ask |-> 0, alive |-> FALSE]
        ELSE LET m == CHOOSE e \in S : \A f \in S : f.t < e.t \/ (f.t = e.t /\ f.id <= e.id)
             IN  [bid |-> m.bid, ask |-> m.ask, alive |-> TRUE]

NoSoftHistory == \A e \in Range(cfg.events) : ~Soft(e)
\* a discontinuation precedes no later quote of the same contract in these configurations, so
\* "last quote wins, dead stays dead" is the whole book semantics needed here
ExecPricedAtLatencyCut ==
    (Running /\ NoSoftHistory) =>
        \A i \in 1..Len(execs) : \A c \in Contracts :
            execs[i].books[c] = ExpectedBook(execs[i].call, c)

\* the stamp of an execution = time of the latest market event delivered before it (C07 StampIsLatest)
StampIsLatest ==
    \A i \in 1..Len(execs) :
        LET S == {j \in 1..Len(elog) : elog[j].kind \in MarketKinds
                                        /\ (elog[j].call < execs[i].call \/ (elog[j].call = execs[i].call /\ elog[j].pre))}
        IN  S # {} => execs[i].stamp = elog[CHOOSE j \in S : \A m \in S : m <= j].t

StrictStamps == \A i \in 1..(Len(execs) - 1) : execs[i].stamp < execs[i + 1].stamp

\* C15 ------------------------------------------------------------------
InFold == Running => \A i \in 1..Len(Steps) : cfg.fstart <= TimeOf(Steps[i]) /\ TimeOf(Steps[i]) <= cfg.fend

\* event-bearing timesteps of the fold, declaratively
Bearing == {SlotOf(e) : e \in {f \in Range(cfg.events) : InGrid(f) /\ ~MarkovDropped(f)}}
FoldBearing == {i \in Bearing : cfg.fstart <= TimeOf(i) /\ TimeOf(i) <= cfg.fend}
Consecutive ==
    Running => /\ \A i \in 1..Len(Steps) : Steps[i] \in FoldBearing
               /\ \A i \in 1..(Len(Steps) - 1) :
                    Steps[i] < Steps[i + 1] /\ ~\E b \in FoldBearing : Steps[i] < b /\ b < Steps[i + 1]
               /\ env.eplen = 0 => Cardinality(FoldBearing) = Len(Steps)

\* an episode of n decisions: the n-th step (and only it) reports done
ExactLength ==
    (Running /\ env.eplen > 0) =>
        /\ Len(Steps) = env.eplen + 1
        /\ (ret.out = "ok" /\ ret.call > 0) => (ret.done <=> ret.call = env.eplen)
        /\ (ret.out = "ok" /\ ret.call = 0) => ~ret.done

\* every position where the whole episode fits is offered to the draw, and no other; refused when none
StartSetExact ==
    /\ \A rl \in ResetLens :
          ValidStarts(CfgFor(rl), cfg.fsteps) =
            (IF EffLen(rl) = 0 THEN {1} ELSE {s \in 1..Len(cfg.fsteps) : s + EffLen(rl) <= Len(cfg.fsteps)})
    /\ (Len(hist) > 0 /\ LastOf(hist).call = "reset") =>
          (LastOf(hist).out = "error" <=>
              (cfg.fsteps = <<>> \/ ValidStarts(CfgFor(LastOf(hist).act.id), cfg.fsteps) = {}))

\* no step without reset, none after the end
DoneIsAbsorbing ==
    [][ (env.done /\ hist' # hist /\ LastOf(hist').call = "step") => (LastOf(hist').out = "ended" /\ env' = env) ]_vars

\* C17 ------------------------------------------------------------------
MalformedNeverExecutes ==
    \A i \in 1..Len(execs) : cfg.bad.at = 0 \/ execs[i].act # cfg.bad.at

RejectedByDueStep ==
    (cfg.bad.at > 0 /\ ret.out = "error" /\ ret.call > 0) => ret.call = cfg.bad.at + cfg.delay

MalformedRejected ==
    (cfg.bad.at > 0 /\ ret.call >= cfg.bad.at + cfg.delay /\ ret.call > 0 /\ Running) => ret.out \in {"error", "ended"}

NullActionExecutes ==
    (ret.call > 0 /\ ret.call <= cfg.delay /\ cfg.bad.at = 0) => ret.out \in {"ok", "ended"}
=============================================================================
