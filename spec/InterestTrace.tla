--------------------------- MODULE InterestTrace ---------------------------
(***************************************************************************)
(* Trace validation for interest on cash (C06), code -> spec: executions   *)
(* recorded from a real cash-only tradingenv Broker - random sequences of  *)
(* accrued_interest(now, accrue) calls at whole-year instants, including   *)
(* repeated instants, query-only calls and times earlier than the last     *)
(* accrual - are re-computed line by line with EXACT rationals: with a     *)
(* dyadic rate and markup and whole years the compounding factor           *)
(* base^years is rational, so the amount returned and the cash balance     *)
(* after every call are decided by TLC itself (Interest.tla keeps the      *)
(* exponent symbolic for arbitrary cuts; this module is its numeric twin   *)
(* on the year lattice).                                                   *)
(*                                                                         *)
(* One trace = [pos, neg, dep, ops]: growth factor of a positive balance   *)
(* (1 + rate - markup, or 1 when that would charge it), of a negative one  *)
(* (1 + rate + markup), the deposit, and the logged calls                  *)
(* [op, y, out, amt, cash].  `verdict` names the clause that differs.      *)
(***************************************************************************)
EXTENDS Rat, Json, IOUtils, TLC

CONSTANT ExpectedStates

Traces == JsonDeserialize(IOEnv.TRACE_FILE)

VARIABLES tid, l, bal, acc, verdict
vars == <<tid, l, bal, acc, verdict>>

RECURSIVE Pow(_, _)
Pow(b, k) == IF k = 0 THEN One ELSE Mul(b, Pow(b, k - 1))

Init == /\ tid \in 1..Len(Traces)
        /\ l = 1
        /\ bal = Traces[tid].dep
        /\ acc = -1
        /\ verdict = <<>>

Step ==
    /\ l <= Len(Traces[tid].ops)
    /\ verdict = <<>>
    /\ LET T  == Traces[tid]
           o  == T.ops[l]
           t  == o.y
           a0 == IF acc = -1 THEN t ELSE acc            \* the first call of either kind starts the clock
       IN  IF t < a0
           THEN \* a time earlier than the last accrual is rejected and changes nothing
                /\ UNCHANGED <<bal, acc>>
                /\ verdict' = IF o.out # "error" \/ o.cash # bal THEN <<"reject">> ELSE <<>>
           ELSE \E base \in {IF Sign(bal) > 0 THEN T.pos ELSE IF Sign(bal) < 0 THEN T.neg ELSE One} :
                \E amt \in {Mul(bal, Sub(Pow(base, t - a0), One))} :
                    /\ bal' = IF o.op = "accrue" THEN Add(bal, amt) ELSE bal
                    /\ acc' = IF o.op = "accrue" THEN t ELSE a0
                    /\ verdict' = (IF o.out # "ok" THEN <<"out">> ELSE <<>>)
                                  \o (IF o.out = "ok" /\ o.amt # amt THEN <<"amt">> ELSE <<>>)
                                  \o (IF o.out = "ok" /\ o.cash # bal' THEN <<"cash">> ELSE <<>>)
    /\ l' = l + 1
    /\ UNCHANGED tid

Next == Step
Accepted == verdict = <<>>
AllConsumed == TLCGet("distinct") = ExpectedStates
\* design facts of the model itself, evaluated on every recorded execution
NeverCharged == \A i \in 1..Len(Traces) : Ge(Traces[i].pos, One)        \* a positive balance is never charged
SignKept == Sign(bal) = Sign(Traces[tid].dep)                           \* compounding never changes the sign of the balance
=============================================================================
