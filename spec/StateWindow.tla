---------------------------- MODULE StateWindow ----------------------------
(***************************************************************************)
(* state.py : State, the windowed observation of TradingEnvXY.             *)
(*                                                                         *)
(* A State keeps the last `window` observation events it has processed in  *)
(* a bounded queue; the very first event it ever sees fills the whole      *)
(* window (so that the observation has its declared shape from the start). *)
(* parse() returns the queue thinned by the stride, counted from the most  *)
(* recent row backwards.  reset() (Observer.reset) re-initialises the      *)
(* object from its constructor arguments: the queue is emptied and the     *)
(* next event is again a "first" one (the rows of a new episode are put    *)
(* there by the events the environment replays at reset).                  *)
(*                                                                         *)
(* Observations are identified by small integers; the harness maps id v to *)
(* the row (v, 10 v) and checks the real State against `Rows`.             *)
(***************************************************************************)
EXTENDS Integers, Sequences, FiniteSets, TLC

CONSTANTS Windows,    \* set of window sizes
          Strides,    \* set of strides (0 = none)
          Vals,       \* set of observation ids
          MaxOps      \* bound on the number of operations

VARIABLES cfg, q, seen, last, hist, n
vars == <<cfg, q, seen, last, hist, n>>
view == <<cfg, q, seen, last, n>>

Init == /\ \E w \in Windows, s \in Strides : cfg = [w |-> w, s |-> s]
        /\ q = <<>>
        /\ seen = FALSE
        /\ last = [op |-> "init", v |-> 0, rows |-> <<>>]
        /\ hist = <<>>
        /\ n = 0

\* deque(maxlen = w).append
Push(s, v, w) == IF Len(s) < w THEN Append(s, v) ELSE Append(Tail(s), v)

RECURSIVE Fill(_, _)
Fill(v, k) == IF k = 0 THEN <<>> ELSE <<v>> \o Fill(v, k - 1)

\* parse(): x[::-stride][::-1], i.e. the rows at positions Len, Len - s, Len - 2 s, ... in ascending order
Rows(s, st) ==
    IF st = 0 THEN s
    ELSE LET keep == {i \in 1..Len(s) : (Len(s) - i) % st = 0}
         IN  SelectSeq([i \in 1..Len(s) |-> IF i \in keep THEN s[i] ELSE -1], LAMBDA x : x # -1)

Log(o) == last' = o /\ hist' = Append(hist, o) /\ n' = n + 1

Observe(v) ==
    /\ q' = IF seen THEN Push(q, v, cfg.w) ELSE Fill(v, cfg.w)
    /\ seen' = TRUE
    /\ Log([op |-> "observe", v |-> v, rows |-> Rows(q', cfg.s)])
    /\ UNCHANGED cfg

Reset ==
    /\ q' = <<>>
    /\ seen' = FALSE
    /\ UNCHANGED cfg
    /\ Log([op |-> "reset", v |-> 0, rows |-> <<>>])

Next == /\ n < MaxOps
        /\ \/ \E v \in Vals : Observe(v)
           \/ Reset
Spec == Init /\ [][Next]_vars

-----------------------------------------------------------------------------
Ceil(a, b) == (a + b - 1) \div b

\* once an observation has been seen the parsed state always has the declared shape
Shape == seen => Len(Rows(q, cfg.s)) = (IF cfg.s = 0 THEN cfg.w ELSE Ceil(cfg.w, cfg.s))

\* the most recent row is the most recent observation
Latest == (seen /\ last.op = "observe") => Rows(q, cfg.s)[Len(Rows(q, cfg.s))] = last.v

\* the queue is the last w observations since the last reset, padded at the front with the first of them
LastReset == IF \E i \in 1..Len(hist) : hist[i].op = "reset"
             THEN CHOOSE i \in 1..Len(hist) : hist[i].op = "reset" /\ \A j \in (i + 1)..Len(hist) : hist[j].op # "reset"
             ELSE 0
Observed == SubSeq(hist, LastReset + 1, Len(hist))
WindowDef ==
    seen => LET obs == [i \in 1..Len(Observed) |-> Observed[i].v]
                pad == Fill(obs[1], cfg.w) \o SubSeq(obs, 2, Len(obs))
            IN  q = SubSeq(pad, Len(pad) - cfg.w + 1, Len(pad))
=============================================================================
