--------------------------- MODULE ExchangeOps ---------------------------
(***************************************************************************)
(* Functional core of exchange.py: one LimitOrderBook per concrete         *)
(* contract, keys that resolve to a book (a contract, the string of its    *)
(* symbol, or a futures chain that resolves to its current lead contract). *)
(* Prices are positive integers; NoPrice stands for NaN.  Mid prices are   *)
(* kept doubled (bid + ask) so that everything stays integral.             *)
(***************************************************************************)
EXTENDS Integers, Sequences, FiniteSets, TLC

CONSTANTS
    Contracts,   \* set of concrete contracts (strings)
    ChainSeq,    \* sequence of the chain's contracts, ascending last-trading time
    ChainLtd,    \* sequence of their last-trading times
    ChainOff     \* chain keys: [key |-> month offset] (a chain built with month = m addresses the m-th contract after the lead)

NoPrice == -1

NewBook == [bid |-> NoPrice, ask |-> NoPrice, alive |-> TRUE, hist |-> <<>>, time |-> -1]

\* LimitOrderBook.update / terminate
UpdateB(b, bid, ask, t) ==
    IF b.alive THEN [b EXCEPT !.bid = bid, !.ask = ask, !.time = t, !.hist = Append(@, <<t, bid, ask>>)]
    ELSE b
TerminateB(b, t) == [b EXCEPT !.bid = NoPrice, !.ask = NoPrice, !.alive = FALSE, !.time = t]

Mid2(b) == IF b.bid = NoPrice \/ b.ask = NoPrice THEN NoPrice ELSE b.bid + b.ask
\* acq_price: a purchase executes at the ask, a sale at the bid, a flat position is priced at the mid
Acq2(b, sgn) == IF sgn < 0 THEN (IF b.bid = NoPrice THEN NoPrice ELSE 2 * b.bid)
                ELSE IF sgn > 0 THEN (IF b.ask = NoPrice THEN NoPrice ELSE 2 * b.ask)
                ELSE Mid2(b)
Liq2(b, sgn) == Acq2(b, -sgn)

\* FutureChain._lead_contract_idx: bisect_right over the last-trading times
LeadIdx(now) == Cardinality({i \in 1..Len(ChainLtd) : ChainLtd[i] <= now}) + 1
LeadOk(now) == LeadIdx(now) <= Len(ChainSeq)
Lead(now) == ChainSeq[LeadIdx(now)]

\* keys: a contract, "s:" \o symbol (the plain string), or a chain key ("CH": the lead, "CH1": one contract down the curve)
ChainKeys == DOMAIN ChainOff
Keys == Contracts \cup ChainKeys \cup {"s:" \o c : c \in Contracts}
StrKey(c) == "s:" \o c
Resolvable(k, now) == k \notin ChainKeys \/ LeadIdx(now) + ChainOff[k] <= Len(ChainSeq)
Resolve(k, now) == IF k \in ChainKeys THEN ChainSeq[LeadIdx(now) + ChainOff[k]]
                   ELSE IF k \in Contracts THEN k
                   ELSE CHOOSE c \in Contracts : StrKey(c) = k
=============================================================================
