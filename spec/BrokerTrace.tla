---------------------------- MODULE BrokerTrace ----------------------------
(***************************************************************************)
(* Trace validation for the broker account: executions recorded from the   *)
(* real tradingenv Broker (random histories of quotes, trades, marks,      *)
(* valuations, lot rebalances on the rational grid) are re-computed line   *)
(* by line with the operators of LedgerOps; `verdict` names the clauses    *)
(* whose recomputed value differs from the logged one.  One initial state  *)
(* per trace, every line is consumed.                                      *)
(***************************************************************************)
EXTENDS LedgerOps, Json, IOUtils

CONSTANTS ExpectedStates,   \* sum over traces of (lines + 1), emitted literally by the harness
          Clauses           \* which clauses this run checks: subset of {"out", "pos", "mrg", "nlv", "trades"}

Traces == JsonDeserialize(IOEnv.TRACE_FILE)

VARIABLES tid, l, st, verdict
vars == <<tid, l, st, verdict>>

Init == /\ tid \in 1..Len(Traces)
        /\ l = 1
        /\ st = InitLedger
        /\ verdict = <<>>

Nlv(s) == IF Valuable(s) THEN NlvOf(s) ELSE NaN

\* the specification's result for one logged operation: [st, out, trades]
Apply(o) ==
    IF o.op = "quote" THEN [st |-> QuoteF(st, o.c, o.x, o.y), out |-> "ok", trades |-> <<>>]
    ELSE IF o.op = "trade" THEN LET r == TransactF(st, o.c, o.x) IN [st |-> r.st, out |-> r.out, trades |-> <<>>]
    ELSE IF o.op = "tradeat" THEN LET r == TransactAtF(st, o.c, o.x, o.tb, o.ta) IN [st |-> r.st, out |-> r.out, trades |-> <<>>]
    ELSE IF o.op = "disc" THEN [st |-> DiscontinueF(st, o.c), out |-> "ok", trades |-> <<>>]
    ELSE IF o.op = "context" THEN LET r == ValueF(st, TRUE) IN [st |-> r.st, out |-> r.out, trades |-> <<>>]
    ELSE IF o.op = "mark" THEN [st |-> MarkF(st, o.c), out |-> "ok", trades |-> <<>>]
    ELSE IF o.op = "markall" THEN [st |-> MarkAllF(st), out |-> "ok", trades |-> <<>>]
    ELSE IF o.op = "value" THEN LET r == ValueF(st, o.flag) IN [st |-> r.st, out |-> r.out, trades |-> <<>>]
    ELSE LET r == RebalanceF(st, [alloc |-> o.alloc, measure |-> o.measure, thr |-> o.thr, fractional |-> o.fractional,
                              absolute |-> TRUE], o.t)
         IN  [st |-> r.st, out |-> r.out, trades |-> r.trades]

Step ==
    /\ l <= Len(Traces[tid].ops)
    /\ verdict = <<>>
    /\ LET o == Traces[tid].ops[l]
       IN  \E r \in {Apply(o)} :
             /\ st' = r.st
             /\ verdict' =
                  (IF "out" \in Clauses /\ o.out # r.out THEN <<"out">> ELSE <<>>)
                  \o (IF "pos" \in Clauses /\ o.out = r.out /\ \E c \in C : o.pos[c] # r.st.pos[c] THEN <<"pos">> ELSE <<>>)
                  \o (IF "mrg" \in Clauses /\ o.out = r.out /\ \E i \in 1..Len(o.chk) : o.mrg[o.chk[i]] # r.st.mrg[o.chk[i]]
                      THEN <<"mrg">> ELSE <<>>)
                  \o (IF "nlv" \in Clauses /\ o.out = r.out /\ o.nlv # Nlv(r.st) THEN <<"nlv">> ELSE <<>>)
                  \o (IF "trades" \in Clauses /\ o.op = "rebalance" /\ o.out = r.out /\ r.out = "ok"
                         /\ (DOMAIN o.trades # DOMAIN r.trades \/ \E c \in DOMAIN r.trades : o.trades[c] # r.trades[c])
                      THEN <<"trades">> ELSE <<>>)
    /\ l' = l + 1
    /\ UNCHANGED tid

Next == Step
Accepted == verdict = <<>>
AllConsumed == TLCGet("distinct") = ExpectedStates
=============================================================================
