-------------------------- MODULE TransmitterOps --------------------------
(***************************************************************************)
(* Functional core of tradingenv's Transmitter (transmitter.py): how a     *)
(* list of timestamped events and a grid of timesteps become per-timestep  *)
(* batches, which timesteps an episode visits, and walk-forward folds.     *)
(*                                                                         *)
(* Time is integer seconds from a base date at midnight chosen by the      *)
(* harness.  An event is a record [id, t, kind, c, bid, ask]; ids are the  *)
(* insertion order (Transmitter.events).                                   *)
(*                                                                         *)
(* A configuration record cfg has                                          *)
(*   grid   : sorted sequence of distinct timesteps (the code sorts and    *)
(*            de-duplicates whatever it is given)                          *)
(*   events : sequence of events in insertion order                        *)
(*   lat    : latency in seconds (smaller than the minimum grid gap)       *)
(*   fstart, fend : the fold's inclusive window                            *)
(*   markov : BOOLEAN;  warmup : seconds, or -1 for none                   *)
(*   eplen  : number of decisions of an episode, 0 for "whole fold"        *)
(***************************************************************************)
EXTENDS Integers, Sequences, FiniteSets, TLC

Day(t) == t \div 86400
LastOf(s) == s[Len(s)]
Range(s) == {s[i] : i \in 1..Len(s)}

\* sorted(events) with IEvent.__lt__ comparing times only: Python's sort is stable, so events sharing a stamp keep their
\* insertion order.  (Sorting positions by (time, position) - a total order - and materialising the result keeps this
\* O(n^2) in TLC even for streams of a thousand events.)
SortEv(evs) ==
    LET idx == SortSeq([i \in 1..Len(evs) |-> i],
                       LAMBDA a, b : evs[a].t < evs[b].t \/ (evs[a].t = evs[b].t /\ a < b))
    IN  [k \in 1..Len(evs) |-> evs[idx[k]]] \o <<>>

RECURSIVE Concat(_)
Concat(ss) == IF ss = <<>> THEN <<>> ELSE Head(ss) \o Concat(Tail(ss))

\* bisect_left(timesteps, t): index of the first timestep >= t  (defined for t <= last timestep)
SlotIdx(grid, t) == CHOOSE i \in 1..Len(grid) : grid[i] >= t /\ (i = 1 \/ grid[i - 1] < t)

\* events that enter the partitions at all
KeptEv(cfg, e) == e.t <= LastOf(cfg.grid) /\ (cfg.markov => e.t >= cfg.grid[1])
Kept(cfg) == SelectSeq(SortEv(cfg.events), LAMBDA e : KeptEv(cfg, e))

\* latent: within `lat` seconds after the preceding timestep of the grid
IsLatentEv(cfg, e) ==
    LET i == SlotIdx(cfg.grid, e.t) IN i > 1 /\ e.t - cfg.grid[i - 1] <= cfg.lat

\* _create_partitions: one latent and one non-latent batch per grid index.  Every kept event is tagged once with its slot and
\* its side (the tagged sequence is materialised by the concatenation), then the batches are selections of that sequence.
Partitions(cfg) ==
    LET kept == Kept(cfg)
        tagd == [k \in 1..Len(kept) |-> [e |-> kept[k], s |-> SlotIdx(cfg.grid, kept[k].t), l |-> IsLatentEv(cfg, kept[k])]] \o <<>>
        pick(i, lat) == LET x == SelectSeq(tagd, LAMBDA r : r.s = i /\ r.l = lat) IN [j \in 1..Len(x) |-> x[j].e]
    IN  [L |-> [i \in 1..Len(cfg.grid) |-> pick(i, TRUE)],
         N |-> [i \in 1..Len(cfg.grid) |-> pick(i, FALSE)]]

\* ascending sequence of the elements of a finite set of integers
RECURSIVE SeqOfSet(_)
SeqOfSet(S) == IF S = {} THEN <<>>
               ELSE LET m == CHOOSE x \in S : \A y \in S : x <= y IN <<m>> \o SeqOfSet(S \ {m})

\* _reset: event-bearing timesteps (grid indices) inside the fold, ascending
FoldSteps(cfg, part) ==
    SelectSeq([i \in 1..Len(cfg.grid) |-> i],
              LAMBDA i : /\ (part.L[i] # <<>> \/ part.N[i] # <<>>)
                         /\ cfg.fstart <= cfg.grid[i] /\ cfg.grid[i] <= cfg.fend)

\* start positions (1-based) offered to the random draw: steps[: -(length - 1)] with length = eplen + 1
ValidStarts(cfg, fsteps) == IF cfg.eplen = 0 THEN {1} ELSE 1..(Len(fsteps) - cfg.eplen)

EpisodeSteps(cfg, fsteps, start) ==
    IF cfg.eplen = 0 THEN fsteps ELSE SubSeq(fsteps, start, start + cfg.eplen)

\* _next: batch of the k-th timestep of the episode; the first one carries the history
Batch(cfg, part, steps, k) ==
    LET g == steps[k]
    IN  IF k = 1 /\ ~cfg.markov
        THEN LET origin == IF cfg.warmup >= 0 THEN cfg.grid[g] - cfg.warmup ELSE -2000000000
                 idx == SelectSeq([i \in 1..g |-> i], LAMBDA i : origin <= cfg.grid[i])
             IN  [L |-> Concat([j \in 1..Len(idx) |-> part.L[idx[j]]]),
                  N |-> Concat([j \in 1..Len(idx) |-> part.N[idx[j]]])]
        ELSE [L |-> part.L[g], N |-> part.N[g]]

-----------------------------------------------------------------------------
\* walk_forward(train, test, sliding) over N timesteps, as 0-based index quadruples
\* count[: -train - test + 1 : test]
WFStarts(N, train, test) ==
    LET stop == N - train - test + 1       \* exclusive bound of the slice (negative index counted from the end)
    IN  {i \in 0..(N - 1) : i < stop /\ i % test = 0}

WalkForward(N, train, test, sliding) ==
    LET ss == SeqOfSet(WFStarts(N, train, test))
    IN  [j \in 1..Len(ss) |->
            [train_start |-> IF sliding THEN ss[j] ELSE 0,
             train_end   |-> ss[j] + train - 1,
             test_start  |-> ss[j] + train,
             test_end    |-> ss[j] + train + test - 1]]
=============================================================================
