-------------------------- MODULE EnvLedgerTrace --------------------------
(***************************************************************************)
(* Trace validation of the whole environment loop WITH its numbers, on     *)
(* executions far longer and wider than the exhaustive models reach:       *)
(* a real TradingEnv (4-6 contracts, spot and margined, 20-40 timesteps,   *)
(* hundreds of quotes, latency, execution delay, commissions) is driven    *)
(* with random actions in numbers of contracts on a dyadic price grid, so  *)
(* that binary floating point reproduces the exact rationals at any        *)
(* length.  The recorder logs one line per                                 *)
(*   reset      a new episode: fresh account, queue of `delay` null actions *)
(*              (Box space: the flat allocation; Discrete menu: its entry 0)*)
(*   quote      a quote delivered to the observers (after the exchange)    *)
(*   submit     the action handed to step()                                *)
(*   rebalance  Broker.rebalance as called by step(): the request it got   *)
(*              and the account after it, the two Context snapshots        *)
(*   step       what step() returned (reward, done) and the record length  *)
(*   disc       a contract's discontinuation delivered to the observers    *)
(*   abort      step() raised: the last line of the trace                  *)
(* Quotes may lose one side (NaN) and contracts may be discontinued, held  *)
(* or not: a step then fails iff the specification's valuation or          *)
(* rebalance fails at that point.                                          *)
(* Every line is recomputed with the operators of LedgerOps; `verdict`     *)
(* names the clauses whose logged value differs:                           *)
(*   pos mrg nlv cash trades  the account (C01, C05), as in BrokerTrace    *)
(*   fifo     the executed request is the action submitted `delay` steps   *)
(*            earlier (null actions first)                         (C08)   *)
(*   stamp    a quote delivered before the execution of a step is stamped  *)
(*            within `latency` after the grid point preceding the landing  *)
(*            timestep; one delivered after it, later than that and no     *)
(*            later than the landing timestep                      (C08)   *)
(*   ctx      context_pre / context_post of the record entry equal the     *)
(*            account's NLV before / after the trades              (C07)   *)
(*   entries  one record entry per executed decision               (C07)   *)
(*   done     step() reports done exactly on the episode's last timestep    *)
(*            (the last of the data, or start + length - 1)         (C15)   *)
(*   reward   RewardPnL = NLV now - NLV before the last execution  (C07)   *)
(*   loud     a rebalance went through although the specification refuses *)
(*            it (an open or targeted position has no usable quote) (C13)   *)
(*   atomic   a refused rebalance left positions and record as they were   *)
(*                                                                  (C13)   *)
(*   spurious step() failed although every valuation and the rebalance of  *)
(*            the specification go through                     (C03 C12)   *)
(*   target   after the execution every named contract is held in the     *)
(*            requested number of lots (fractional requests)       (C03)   *)
(* One initial state per trace; every line is consumed.                    *)
(***************************************************************************)
EXTENDS LedgerOps, Json, IOUtils

CONSTANTS ExpectedStates, Clauses

Traces == JsonDeserialize(IOEnv.TRACE_FILE)

VARIABLES tid, l, st, queue, lastPre, nEntries, phase, idx, verdict
vars == <<tid, l, st, queue, lastPre, nEntries, phase, idx, verdict>>

Init == /\ tid \in 1..Len(Traces)
        /\ l = 1
        /\ st = InitLedger
        /\ queue = <<>>
        /\ lastPre = NaN
        /\ nEntries = 0
        /\ phase = "idle"       \* "pre": between submit and the execution, "post": after it, "idle": between steps
        /\ idx = 1             \* position in the episode: index into the trace's `steps` (the timesteps that have events)
        /\ verdict = <<>>

Nlv(s) == IF Valuable(s) THEN NlvOf(s) ELSE NaN
Has(cl) == cl \in Clauses
Bad(cl, cond) == IF Has(cl) /\ cond THEN <<cl>> ELSE <<>>

\* account clauses shared by every line that logs the account
Account(o, s, chk) ==
    Bad("pos", \E c \in C : o.pos[c] # s.pos[c])
    \o Bad("mrg", chk /\ \E c \in C : o.mrg[c] # s.mrg[c])
    \o Bad("cash", chk /\ o.cash # s.cash)
    \o Bad("nlv", o.nlv # Nlv(s))

\* what the null action of the space denotes: nothing for a Box space, entry 0 of the menu for a Discrete one (whatever it is)
NullAlloc(t) == [c \in DOMAIN Traces[t].null |-> Traces[t].null[c]]
Req(o, a) == [alloc |-> a, measure |-> "lots", thr |-> o.thr, fractional |-> o.fractional, absolute |-> TRUE]
SameAlloc(a, b) == DOMAIN a = DOMAIN b /\ \A c \in DOMAIN a : a[c] = b[c]

Step ==
    /\ l <= Len(Traces[tid].ops)
    /\ verdict = <<>>
    /\ LET o == Traces[tid].ops[l]
           lat == Traces[tid].latency
           steps == Traces[tid].steps
           \* the timestep the step lands on, and the grid point before it (which may have no events and so be no
           \* step of the episode): the latency window is counted from that grid point, as in TransmitterOps!IsLatentEv
           nextT == IF idx < Len(steps) THEN steps[idx + 1] ELSE steps[idx]
           prevG == IF idx < Len(steps) THEN Traces[tid].prevs[idx + 1] ELSE steps[idx]
       IN
       CASE o.op = "reset" ->
              /\ st' = InitLedger
              /\ queue' = [i \in 1..Traces[tid].delay |-> NullAlloc(tid)]
              /\ lastPre' = NaN /\ nEntries' = 0 /\ phase' = "idle" /\ idx' = o.start + 1
              /\ verdict' = <<>>
         [] o.op = "quote" ->
              \E s \in {QuoteF(st, o.c, o.x, o.y)} :
                /\ st' = s
                /\ verdict' = Account(o, s, FALSE)
                     \o Bad("stamp", phase = "pre" /\ ~(o.t > prevG /\ o.t <= prevG + lat))
                     \o Bad("stamp", phase = "post" /\ ~(o.t > prevG + lat /\ o.t <= nextT))
                /\ UNCHANGED <<queue, lastPre, nEntries, phase, idx>>
         [] o.op = "disc" ->
              \E s \in {DiscontinueF(st, o.c)} :
                /\ st' = s
                /\ verdict' = Account(o, s, FALSE)
                /\ UNCHANGED <<queue, lastPre, nEntries, phase, idx>>
         [] o.op = "abort" ->
              /\ verdict' = Bad("spurious", phase \in {"idle", "pre"} \/ (phase = "post" /\ ValueF(st, TRUE).out = "ok"))
              /\ UNCHANGED <<st, queue, lastPre, nEntries, phase, idx>>
         [] o.op = "submit" ->
              /\ queue' = Append(queue, [c \in DOMAIN o.alloc |-> o.alloc[c]])
              /\ phase' = "pre"
              /\ verdict' = Bad("order", phase # "idle" \/ idx >= Len(steps))
              /\ UNCHANGED <<st, lastPre, nEntries, idx>>
         [] o.op = "rebalance" ->
              \E r \in {RebalanceF(st, Req(o, o.alloc), o.k)} :
                /\ st' = r.st
                /\ queue' = IF queue = <<>> THEN queue ELSE Tail(queue)
                /\ lastPre' = IF r.out = "ok" THEN r.pre ELSE lastPre
                /\ nEntries' = IF r.out = "ok" THEN nEntries + 1 ELSE nEntries
                /\ phase' = IF r.out = "ok" THEN "post" ELSE "failed"
                /\ UNCHANGED idx
                /\ verdict' =
                     Bad("order", phase # "pre")
                     \o Bad("fifo", queue = <<>> \/ (queue # <<>> /\ ~SameAlloc(Head(queue), o.alloc)))
                     \o Bad("loud", o.out = "ok" /\ r.out = "error")
                     \o Bad("spurious", o.out = "error" /\ r.out = "ok")
                     \o Bad("out", o.out # r.out /\ "error" \notin {o.out, r.out})
                     \o Bad("atomic", o.out = "error" /\ (o.entries # nEntries \/ \E c \in C : o.pos[c] # st.pos[c]))
                     \o (IF o.out = r.out /\ r.out = "ok"
                         THEN Account(o, r.st, TRUE)
                              \o Bad("trades", DOMAIN o.trades # DOMAIN r.trades \/ \E c \in DOMAIN r.trades : o.trades[c] # r.trades[c])
                              \o Bad("ctx", o.ctxpre # r.pre \/ o.ctxpost # r.post)
                              \o Bad("target", o.fractional /\ \E c \in C : o.pos[c] #
                                        (IF c \in DOMAIN o.alloc THEN o.alloc[c] ELSE Zero))
                         ELSE <<>>)
         [] o.op = "step" ->
              \E v \in {ValueF(st, FALSE)} :
                /\ st' = v.st
                /\ phase' = "idle"
                /\ idx' = idx + 1
                /\ verdict' =
                     Bad("order", phase # "post")
                     \o Bad("done", o.done # (idx + 1 >= o.last))
                     \o Bad("entries", o.entries # nEntries)
                     \o Bad("reward", lastPre # NaN /\ v.out = "ok" /\ o.reward # Sub(v.nlv, lastPre))
                     \o Account(o, v.st, v.out = "ok")
                /\ UNCHANGED <<queue, lastPre, nEntries>>
    /\ l' = l + 1
    /\ UNCHANGED tid

Next == Step
Accepted == verdict = <<>>
AllConsumed == TLCGet("distinct") = ExpectedStates
=============================================================================
