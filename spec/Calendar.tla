------------------------------ MODULE Calendar ------------------------------
(***************************************************************************)
(* Futures calendars of tradingenv.contracts, from independent civil-date  *)
(* arithmetic on day numbers (days since 1970-01-01).  Decides C19 and the *)
(* lead-contract half of C11.                                              *)
(***************************************************************************)
EXTENDS Integers, Sequences, FiniteSets, TLC

\* days since 1970-01-01 of a proleptic Gregorian date (y >= 1)
DaysFromCivil(y, m, d) ==
    LET yy  == IF m <= 2 THEN y - 1 ELSE y
        era == yy \div 400
        yoe == yy - (era * 400)
        mp  == (m + 9) % 12
        doy == (((153 * mp) + 2) \div 5) + d - 1
        doe == (yoe * 365) + (yoe \div 4) - (yoe \div 100) + doy
    IN  (era * 146097) + doe - 719468

Weekday(n) == (n + 3) % 7           \* 0 = Monday ... 4 = Friday, 5 = Saturday, 6 = Sunday
IsLeap(y) == (y % 4 = 0 /\ y % 100 # 0) \/ y % 400 = 0
DaysInMonth(y, m) == IF m = 2 THEN (IF IsLeap(y) THEN 29 ELSE 28)
                     ELSE IF m \in {4, 6, 9, 11} THEN 30 ELSE 31
NextMonth(y, m) == IF m = 12 THEN <<y + 1, 1>> ELSE <<y, m + 1>>
PrevMonth(y, m) == IF m = 1 THEN <<y - 1, 12>> ELSE <<y, m - 1>>

\* k-th given weekday of a month
NthWeekday(y, m, wd, k) ==
    LET first == DaysFromCivil(y, m, 1)
    IN  first + ((wd - Weekday(first) + 7) % 7) + (7 * (k - 1))

LastWeekdayOfMonth(y, m) ==
    LET last == DaysFromCivil(y, m, DaysInMonth(y, m))
        w == Weekday(last)
    IN  IF w <= 4 THEN last ELSE last - (w - 4)

Treasuries == {"ZQ", "ZT", "ZF", "ZN", "ZB"}
Classes == {"ES", "NK", "VX"} \cup Treasuries
Quarterly == Classes \ {"VX"}

Expiry(cls, y, m) ==
    IF cls = "ES" THEN NthWeekday(y, m, 4, 3)
    ELSE IF cls = "NK" THEN NthWeekday(y, m, 4, 2)
    ELSE IF cls = "VX" THEN LET nm == NextMonth(y, m) IN NthWeekday(nm[1], nm[2], 4, 3) - 30
    ELSE LastWeekdayOfMonth(y, m)

\* month of a day number known to lie in month (y, m) or the one before: where does n - 30 fall?
\* Treasury cut-off: the 24th of the month containing (expiry - 30 days)
TreasuryCutoff(y, m) ==
    LET e == LastWeekdayOfMonth(y, m)
        x == e - 30
        inThis == x >= DaysFromCivil(y, m, 1)
        pm == PrevMonth(y, m)
    IN  IF inThis THEN DaysFromCivil(y, m, 24) ELSE DaysFromCivil(pm[1], pm[2], 24)

\* the mechanism's last-trading day (the properties only require it to precede the expiry)
Cutoff(cls, y, m) ==
    IF cls = "ES" THEN Expiry(cls, y, m) - 8
    ELSE IF cls = "NK" THEN Expiry(cls, y, m) - 14
    ELSE IF cls = "VX" THEN Expiry(cls, y, m) - 2          \* two business days before a Wednesday
    ELSE TreasuryCutoff(y, m)

MonthCode == <<"F", "G", "H", "J", "K", "M", "N", "Q", "U", "V", "X", "Z">>
Digit == <<"0", "1", "2", "3", "4", "5", "6", "7", "8", "9">>
TwoDigits(k) == Digit[(k \div 10) + 1] \o Digit[(k % 10) + 1]
Symbol(cls, y, m) == cls \o MonthCode[m] \o TwoDigits(y % 100)

\* the month after (y, m) in the listing cycle of the class
NextListed(cls, y, m) ==
    IF cls = "VX" THEN NextMonth(y, m)
    ELSE IF m >= 10 THEN <<y + 1, m - 9>> ELSE <<y, m + 3>>

=============================================================================
