--------------------------- MODULE CalendarTable ---------------------------
(* C19: one state per (class, year, month); the whole input domain is enumerated. *)
EXTENDS Calendar
CONSTANTS Years, TabClasses
VARIABLES p, row

TabInit == /\ p \in [cls : TabClasses, y : Years, m : 1..12]
           /\ row = [expiry |-> Expiry(p.cls, p.y, p.m), cutoff |-> Cutoff(p.cls, p.y, p.m),
                     symbol |-> Symbol(p.cls, p.y, p.m)]
TabNext == UNCHANGED <<p, row>>

\* the rule, restated without the construction used above
ExpiryRule ==
    LET e == row.expiry
        lo(d) == DaysFromCivil(p.y, p.m, d)
    IN  IF p.cls = "ES" THEN Weekday(e) = 4 /\ lo(15) <= e /\ e <= lo(21)
        ELSE IF p.cls = "NK" THEN Weekday(e) = 4 /\ lo(8) <= e /\ e <= lo(14)
        ELSE IF p.cls = "VX"
             THEN LET nm == NextMonth(p.y, p.m)
                      f == e + 30
                  IN  /\ Weekday(e) = 2 /\ Weekday(f) = 4
                      /\ DaysFromCivil(nm[1], nm[2], 15) <= f /\ f <= DaysFromCivil(nm[1], nm[2], 21)
        ELSE /\ Weekday(e) <= 4
             /\ lo(1) <= e /\ e <= lo(DaysInMonth(p.y, p.m))
             /\ \A d \in (e + 1)..lo(DaysInMonth(p.y, p.m)) : Weekday(d) >= 5

CutoffBeforeExpiry == row.cutoff < row.expiry

\* consecutive listed contracts: strictly increasing expiry and last-trading day
ChainOrdered ==
    LET n == NextListed(p.cls, p.y, p.m)
    IN  /\ Expiry(p.cls, n[1], n[2]) > row.expiry
        /\ Cutoff(p.cls, n[1], n[2]) > row.cutoff

\* symbols are unique within a century: same symbol <=> same month and same year modulo 100
SymbolRule ==
    /\ row.symbol = p.cls \o MonthCode[p.m] \o TwoDigits(p.y % 100)
    /\ \A y2 \in {p.y + 1, p.y + 25, p.y + 99} : \A m2 \in 1..12 :
          Symbol(p.cls, y2, m2) # row.symbol
    /\ Symbol(p.cls, p.y + 100, p.m) = row.symbol

=============================================================================
