----------------------------- MODULE TrackRecord -----------------------------
(***************************************************************************)
(* The track-record container on its own (tradingenv.broker.track_record   *)
(* TrackRecord): checkpoints arrive one per executed decision, a second    *)
(* checkpoint carrying a stamp already recorded is refused and changes     *)
(* nothing, entries are addressed by position (arrival order) and by       *)
(* stamp, and the frames list one row per entry - all of them, or, with    *)
(* the burn-in option, all but the leading entries that traded nothing.    *)
(* Decides the container half of C07 (one entry per executed decision,     *)
(* nothing lost, nothing duplicated, the frames report the entries).       *)
(*                                                                         *)
(*   entries  sequence of [t, nt, id]: stamp, number of trades, identity   *)
(*   burn     the code's counter of entries to skip with burn-in           *)
(*   started  the code's "trading has started" flag                        *)
(*   last     outcome of the last call                                     *)
(*   hist     the calls since Init (what the harness replays)              *)
(***************************************************************************)
EXTENDS Integers, Sequences, FiniteSets

CONSTANTS Times,     \* set of stamps
          NTrades,   \* set of numbers of trades an entry may list (0 = the decision traded nothing)
          MaxOps

VARIABLES entries, burn, started, last, hist, n
vars == <<entries, burn, started, last, hist, n>>

Stamps(es) == {es[i].t : i \in 1..Len(es)}

Init == /\ entries = <<>>
        /\ burn = 0
        /\ started = FALSE
        /\ last = [op |-> "init", t |-> 0, nt |-> 0, out |-> "ok"]
        /\ hist = <<>>
        /\ n = 0

\* TrackRecord._checkpoint, in the code's own order: duplicate test, append, started flag, burn counter
Checkpoint(t, nt) ==
    /\ n < MaxOps
    /\ n' = n + 1
    /\ IF t \in Stamps(entries)
       THEN /\ UNCHANGED <<entries, burn, started>>
            /\ last' = [op |-> "checkpoint", t |-> t, nt |-> nt, out |-> "error"]
       ELSE /\ entries' = Append(entries, [t |-> t, nt |-> nt, id |-> n + 1])
            /\ started' = (started \/ nt # 0)
            /\ burn' = IF started \/ nt # 0 THEN burn ELSE burn + 1
            /\ last' = [op |-> "checkpoint", t |-> t, nt |-> nt, out |-> "ok"]
    /\ hist' = Append(hist, [op |-> "checkpoint", t |-> t, nt |-> nt, id |-> n + 1,
                             out |-> IF t \in Stamps(entries) THEN "error" ELSE "ok",
                             \* what the frames must list after this call: identities, all and after burn-in
                             rows |-> [i \in 1..Len(entries') |-> entries'[i].id],
                             burnt |-> [i \in 1..(Len(entries') - burn') |-> entries'[burn' + i].id]])

Next == \E t \in Times, nt \in NTrades : Checkpoint(t, nt)
Spec == Init /\ [][Next]_vars

-----------------------------------------------------------------------------
\* Declarative statement (from the history of calls alone)

Accepted == SelectSeq(hist, LAMBDA r : r.out = "ok")

\* one entry per accepted checkpoint, in arrival order, none lost, none duplicated
OneEntryPerCheckpoint ==
    /\ Len(entries) = Len(Accepted)
    /\ \A i \in 1..Len(entries) : entries[i].id = Accepted[i].id /\ entries[i].t = Accepted[i].t
UniqueStamps == \A i, j \in 1..Len(entries) : entries[i].t = entries[j].t => i = j

\* a checkpoint is refused exactly when its stamp is already recorded, and then nothing changes
DuplicateRefused ==
    [][ /\ (last'.out = "error") <=> (last'.t \in Stamps(entries))
        /\ (last'.out = "error") => UNCHANGED <<entries, burn, started>> ]_vars

\* burn-in skips exactly the leading entries that traded nothing
LeadingIdle == IF \E i \in 1..Len(entries) : entries[i].nt # 0
               THEN (CHOOSE i \in 1..Len(entries) : entries[i].nt # 0 /\ \A j \in 1..(i - 1) : entries[j].nt = 0) - 1
               ELSE Len(entries)
BurnIsLeadingIdle == burn = LeadingIdle

\* entries only ever grow at the end
AppendOnly == [][ \A i \in 1..Len(entries) : i <= Len(entries') /\ entries'[i] = entries[i] ]_vars
=============================================================================
