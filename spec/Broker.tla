------------------------------- MODULE Broker -------------------------------
(***************************************************************************)
(* State machine of one brokerage account over one exchange: every history *)
(* of {quote, half-quote, discontinuation, trade, mark-to-market,          *)
(* valuation, rebalance, interest accrual}.  Decides C01 C03 C05 C12 C13   *)
(* (and the whole-year part of C06) on the ledger of LedgerOps.tla.        *)
(*                                                                         *)
(* st    ledger record (see LedgerOps)                                     *)
(* h     the INDEPENDENT self-financing ledger: what was paid per contract,*)
(*       fees and interest; it is never read by the mechanism (st)         *)
(* track number of checkpointed rebalances                                 *)
(* clk   model clock, in years of 365 days                                 *)
(* last  the last operation with its arguments and predicted outcome       *)
(* hist  the operations since Init (hidden from the fingerprint by VIEW;   *)
(*       it is what the harness replays into the real Broker)              *)
(* n     number of operations so far (bounds the exploration)              *)
(***************************************************************************)
EXTENDS LedgerOps

CONSTANTS
    Ops,        \* subset of {"quote","half","disc","trade","mark","markall","value","lots","rebal","accrue","query"}
    Bids,       \* set of integer bid prices
    Spreads,    \* set of integer (even) spreads
    DQs,        \* set of trade sizes (rationals)
    LotTargets, \* set of functions [SUBSET C -> Int \ {0}] (rebalance to numbers of contracts)
    Reqs,       \* set of rebalancing requests (see LedgerOps) for op "rebal"
    Steps,      \* set of clock increments (years) for rebalances / accruals
    MaxClk,     \* bound on the model clock in years (keeps compounded rationals within 32 bits)
    MaxRebal,   \* bound on checkpointed rebalances (keeps exact rationals within TLC's 32-bit integers)
    MaxDepth

\* prep: a rebalancing request that has been built and previewed (Rebalancing.make_trades) but not executed yet
VARIABLES st, h, track, clk, last, hist, n, prep
vars == <<st, h, track, clk, last, hist, n, prep>>
view == <<st, h, track, clk, last, n, prep>>
NoPrep == [alloc |-> <<>>, measure |-> "none", thr |-> Zero, fractional |-> TRUE, absolute |-> TRUE]

NoOp == [op |-> "init", c |-> "-", x |-> "-", y |-> "-", out |-> "ok", nlv |-> NaN]

Init == /\ st = InitLedger
        /\ h = [paid |-> [c \in C |-> Zero], fees |-> Zero, interest |-> Zero]
        /\ track = 0
        /\ clk = 0
        /\ last = NoOp
        /\ hist = <<>>
        /\ n = 0
        /\ prep = NoPrep

\* every history record also carries the positions and margins after the operation, so that the
\* harness can compare the account at every step of a replayed history and not only at its end
Log(o) == /\ last' = o
          /\ hist' = Append(hist, o @@ [pos |-> st'.pos, mrg |-> st'.mrg, cash |-> st'.cash])
          /\ n' = n + 1

\* NLV as a pure function of the state, NaN when some open position cannot be priced
Nlv(s) == IF Valuable(s) THEN NlvOf(s) ELSE NaN

-----------------------------------------------------------------------------
Quote(c, b, s) ==
    /\ "quote" \in Ops
    /\ \E n1 \in {QuoteF(st, c, RM(b), RM(b + s))} :
          /\ st' = n1
          /\ Log([op |-> "quote", c |-> c, x |-> RM(b), y |-> RM(b + s), out |-> "ok", nlv |-> Nlv(n1)])
    /\ UNCHANGED <<h, track, clk>>

\* a quote with one or both sides missing (EventNBBO with NaN prices)
Half(c, b, side) ==
    /\ "half" \in Ops
    /\ LET nb == IF side \in {"bid", "both"} THEN NaN ELSE RM(b)
           na == IF side \in {"ask", "both"} THEN NaN ELSE RM(b)
       IN  \E n1 \in {QuoteF(st, c, nb, na)} :
           /\ st' = n1
           /\ Log([op |-> "quote", c |-> c, x |-> nb, y |-> na, out |-> "ok", nlv |-> Nlv(n1)])
    /\ UNCHANGED <<h, track, clk>>

Discontinue(c) ==
    /\ "disc" \in Ops
    /\ st.alive[c]
    /\ \E n1 \in {DiscontinueF(st, c)} :
          /\ st' = n1
          /\ Log([op |-> "disc", c |-> c, x |-> "-", y |-> "-", out |-> "ok", nlv |-> Nlv(n1)])
    /\ UNCHANGED <<h, track, clk>>

Trade(c, dq) ==
    /\ "trade" \in Ops
    /\ \E r \in {TransactF(st, c, dq)} :     \* bound once (TLC re-evaluates LET definitions per reference in actions)
           /\ st' = r.st
           /\ h' = IF r.out = "ok"
                   THEN [h EXCEPT !.paid[c] = Add(@, Mul(dq, r.exec)), !.fees = Add(@, r.comm)]
                   ELSE h
           /\ Log([op |-> "trade", c |-> c, x |-> dq, y |-> "-", out |-> r.out, nlv |-> Nlv(r.st)])
    /\ UNCHANGED <<track, clk>>

\* an order priced earlier (at tb / ta) and executed now, whatever the book shows now
TradeAt(c, dq, b, sp) ==
    /\ "tradeat" \in Ops
    /\ \E r \in {TransactAtF(st, c, dq, RM(b), RM(b + sp))} :
           /\ st' = r.st
           /\ h' = IF r.out = "ok"
                   THEN [h EXCEPT !.paid[c] = Add(@, Mul(dq, r.exec)), !.fees = Add(@, r.comm)]
                   ELSE h
           /\ Log([op |-> "tradeat", c |-> c, x |-> dq, y |-> "-", tb |-> RM(b), ta |-> RM(b + sp), out |-> r.out, nlv |-> Nlv(r.st)])
    /\ UNCHANGED <<track, clk>>

Mark(c) ==
    /\ "mark" \in Ops
    /\ \E n1 \in {MarkF(st, c)} :
          /\ st' = n1
          /\ Log([op |-> "mark", c |-> c, x |-> "-", y |-> "-", out |-> "ok", nlv |-> Nlv(n1)])
    /\ UNCHANGED <<h, track, clk>>

MarkAll ==
    /\ "markall" \in Ops
    /\ \E n1 \in {MarkAllF(st)} :
          /\ st' = n1
          /\ Log([op |-> "markall", c |-> "-", x |-> "-", y |-> "-", out |-> "ok", nlv |-> Nlv(n1)])
    /\ UNCHANGED <<h, track, clk>>

Value(raise) ==
    /\ "value" \in Ops
    /\ \E r \in {ValueF(st, raise)} :
           /\ st' = r.st
           /\ Log([op |-> "value", c |-> "-", x |-> raise, y |-> "-", out |-> r.out, nlv |-> r.nlv])
    /\ UNCHANGED <<h, track, clk>>

\* holdings_weights(): values the account (hence marks it to market) and reports notional / NLV per contract
\* context(): the same valuation, reporting NLV, weights, notional values, positions and margins in one snapshot
ProjQ(tag) ==
    /\ tag \in Ops
    /\ \E r \in {ValueF(st, TRUE)} :
           /\ st' = r.st
           /\ Log([op |-> tag, c |-> "-", x |-> "-", y |-> "-", out |-> r.out, nlv |-> r.nlv,
                   w |-> IF r.out = "ok" THEN [c \in C |-> Div(Notional(r.st, c), r.nlv)] ELSE <<>>,
                   val |-> IF r.out = "ok" THEN [c \in C |-> Notional(r.st, c)] ELSE <<>>])
    /\ UNCHANGED <<h, track, clk>>
WeightsQ == ProjQ("weights")
ContextQ == ProjQ("context")

\* the rebalancing path: trades are built by the library from the exchange's current quotes
DoRebalance(req, dt, tag, prepared) ==
    \E t \in {clk + dt} : \E r \in {RebalanceF(st, req, t)} :
    LET execp(c) == AcqPrice(st, c, Sign(r.trades[c]))
        done == r.trades # <<>> /\ r.out \in {"ok", "broke"}     \* trades were executed
    IN  /\ track < MaxRebal
        /\ t <= MaxClk
        /\ st' = r.st
        /\ clk' = t
        /\ h' = [paid |-> [c \in C |-> IF done /\ c \in DOMAIN r.trades
                                       THEN Add(h.paid[c], Mul(r.trades[c], execp(c))) ELSE h.paid[c]],
                 fees |-> Add(h.fees, r.comm),
                 interest |-> Add(h.interest, r.interest)]
        /\ track' = IF r.out = "ok" THEN track + 1 ELSE track
        /\ Log([op |-> tag, c |-> "-", x |-> req, y |-> t, out |-> r.out, nlv |-> Nlv(r.st),
                pre |-> r.pre, post |-> r.post, trades |-> r.trades, interest |-> r.interest, edge |-> r.edge,
                prepared |-> prepared,
                \* the weights the account reports after the rebalance (context_post): notional value / NLV
                wpost |-> IF r.out = "ok" /\ r.post # NaN /\ ~IsZero(r.post) /\ Valuable(r.st)
                          THEN [c \in C |-> Div(Notional(r.st, c), r.post)] ELSE <<>>])

Lots(tgt, dt) ==
    /\ "lots" \in Ops
    /\ DoRebalance([alloc |-> [c \in DOMAIN tgt |-> RM(tgt[c])], measure |-> "lots",
                    thr |-> Zero, fractional |-> TRUE, absolute |-> TRUE], dt, "rebalance", FALSE)

Rebal(req, dt) ==
    /\ "rebal" \in Ops
    /\ DoRebalance(req, dt, "rebalance", FALSE)

\* "see what the trades would be": the request object is built and its trades previewed now (which values the account,
\* hence marks it to market), and executed later - possibly after quotes have moved - as if it were new
Prepare(req) ==
    /\ "prepare" \in Ops
    /\ prep = NoPrep
    /\ \E v \in {ValueF(st, TRUE)} :
          \E m \in {IF v.out = "ok" THEN MakeTradesF(v.st, req, v.nlv) ELSE [out |-> v.out, trades |-> <<>>, edge |-> {}]} :
             /\ st' = v.st
             /\ prep' = IF m.out = "ok" THEN req ELSE NoPrep
             /\ Log([op |-> "prepare", c |-> "-", x |-> req, y |-> "-", out |-> m.out, nlv |-> Nlv(v.st),
                     trades |-> m.trades, edge |-> m.edge])
    /\ UNCHANGED <<h, track, clk>>

\* the previewed object is executed; it may be submitted again later (a standing request re-submitted after prices moved):
\* what was computed for an earlier execution plays no role
Execute(dt) ==
    /\ "prepare" \in Ops
    /\ prep # NoPrep
    /\ DoRebalance(prep, dt, "rebalance", TRUE)
    /\ prep' = IF "resubmit" \in Ops THEN prep ELSE NoPrep

Accrue(dt, accrue) ==
    /\ (IF accrue THEN "accrue" ELSE "query") \in Ops
    /\ clk + dt <= MaxClk
    /\ \E t \in {clk + dt} : \E r \in {AccrueF(st, t, accrue)} :
           /\ st' = r.st
           /\ clk' = t
           /\ h' = IF accrue THEN [h EXCEPT !.interest = Add(@, r.amount)] ELSE h
           /\ Log([op |-> IF accrue THEN "accrue" ELSE "query", c |-> "-", x |-> t, y |-> r.amount,
                   out |-> r.out, nlv |-> Nlv(r.st)])
    /\ UNCHANGED track

Next ==
    /\ n < MaxDepth
    /\ \/ /\ UNCHANGED prep
          /\ \/ \E c \in C, b \in Bids, s \in Spreads : Quote(c, b, s)
             \/ \E c \in C, b \in Bids, side \in {"bid", "ask", "both"} : Half(c, b, side)
             \/ \E c \in C : Discontinue(c)
             \/ \E c \in C, dq \in DQs : Trade(c, dq)
             \/ \E c \in C, dq \in DQs, b \in Bids, sp \in Spreads : TradeAt(c, dq, b, sp)
             \/ \E c \in C : Mark(c)
             \/ MarkAll
             \/ \E r \in BOOLEAN : Value(r)
             \/ WeightsQ
             \/ ContextQ
             \/ \E tgt \in LotTargets, dt \in Steps : Lots(tgt, dt)
             \/ \E req \in Reqs, dt \in Steps : Rebal(req, dt)
             \/ \E dt \in Steps \cup {0}, a \in BOOLEAN : Accrue(dt, a)
       \/ \E req \in Reqs : Prepare(req)
       \/ \E dt \in Steps : Execute(dt)

Spec == Init /\ [][Next]_vars

-----------------------------------------------------------------------------
\* C01  self-financing

RECURSIVE SumPos(_, _, _)
SumPos(s, hh, cs) ==
    IF cs = {} THEN Zero
    ELSE LET c == CHOOSE x \in cs : TRUE
             v == IF IsZero(s.pos[c]) THEN Zero ELSE Mul(s.pos[c], Liq(s, c))
         IN  Add(Mul(RM(Mult[c]), Sub(v, hh.paid[c])), SumPos(s, hh, cs \ {c}))

Ideal(s, hh) == Add(Sub(Add(Deposit, hh.interest), hh.fees), SumPos(s, hh, C))

\* in EVERY reachable state in which the open positions can be priced
SelfFinancing == Valuable(st) => NlvOf(st) = Ideal(st, h)

PosVal(s, c) == IF IsZero(s.pos[c]) THEN Zero ELSE Mul(s.pos[c], Liq(s, c))

TradeDelta ==
    [][ (last'.op \in {"trade", "tradeat"} /\ last'.out = "ok" /\ Valuable(st) /\ Valuable(st')) =>
          LET c == last'.c  dq == last'.x
              exec == IF last'.op = "trade" THEN AcqPrice(st, c, Sign(dq))
                      ELSE IF Sign(dq) > 0 THEN last'.ta ELSE last'.tb
          IN  Sub(NlvOf(st'), NlvOf(st)) =
                Add(Neg(Commission(c, exec, dq)),
                    Mul(RM(Mult[c]), Sub(Sub(PosVal(st', c), PosVal(st, c)), Mul(dq, exec)))) ]_vars

QuoteDelta ==
    [][ (last'.op = "quote" /\ Valuable(st) /\ Valuable(st')) =>
          LET c == last'.c
          IN  Sub(NlvOf(st'), NlvOf(st)) = Mul(RM(Mult[c]), Sub(PosVal(st', c), PosVal(st, c))) ]_vars

\* valuation, marking and failed operations never move value
Neutral ==
    [][ (last'.op \in {"mark", "markall", "value", "query", "weights", "context"} /\ Valuable(st)) => NlvOf(st') = NlvOf(st) ]_vars

-----------------------------------------------------------------------------
\* C05  margin account

MarginOk(s, c) ==
    s.mrg[c] = IF IsZero(Mr[c]) \/ IsZero(s.pos[c]) THEN Zero
               ELSE Mul(Mul(Mul(Mr[c], RM(Mult[c])), RAbs(s.pos[c])), Liq(s, c))

\* observation points: after a valuation / a full mark all contracts, after a trade the traded one
MarginInv ==
    /\ (last.op \in {"value", "markall", "rebalance", "weights", "context"} /\ last.out \in {"ok", "broke"} /\ Valuable(st))
          => \A c \in C : MarginOk(st, c)
    /\ (last.op = "trade" /\ last.out = "ok") => MarginOk(st, last.c)
    /\ (last.op = "tradeat" /\ last.out = "ok" /\ Liq(st, last.c) # NaN) => MarginOk(st, last.c)
    /\ (last.op = "mark" /\ Liq(st, last.c) # NaN /\ st.ref[last.c] # None) => MarginOk(st, last.c)
    /\ \A c \in C : Sign(st.mrg[c]) >= 0

RECURSIVE SumDecomp(_, _)
SumDecomp(s, cs) ==
    IF cs = {} THEN Zero
    ELSE LET c == CHOOSE x \in cs : TRUE
             v == IF CashReq[c] = 1 THEN Mul(RM(Mult[c]), PosVal(s, c)) ELSE Zero
         IN  Add(Add(s.mrg[c], v), SumDecomp(s, cs \ {c}))

\* cash + posted margins + liquidation value of fully-paid positions = reported NLV
NlvDecomposition ==
    (last.op = "value" /\ last.out \in {"ok", "broke"}) => last.nlv = Add(st.cash, SumDecomp(st, C))

-----------------------------------------------------------------------------
\* C13  missing prices fail loudly; a rebalance is all-or-nothing

ValueFailsLoudly == last.op = "value" => (last.out = "error" <=> ~Valuable(st))

RebalanceAtomic ==
    [][ (last'.op = "rebalance" /\ last'.out = "error") => (st'.pos = st.pos /\ track' = track) ]_vars

\* a rebalance needing a quote that is missing never goes through
RebalanceNeedsQuotes ==
    (last.op = "rebalance" /\ last.out = "ok") =>
        \A c \in DOMAIN last.trades : st.bid[c] # NaN /\ st.ask[c] # NaN

-----------------------------------------------------------------------------
\* C03  rebalancing reaches the target (no threshold); evaluated on the state after the rebalance

TargetReached ==
    (last.op = "rebalance" /\ last.out \in {"ok", "broke"} /\ last.pre # NaN /\ IsZero(last.x.thr) /\ last.x.fractional
        /\ last.x.absolute) =>
        \A c \in C :
            IF Targeted(last.x, c)
            THEN IF last.x.measure = "lots" THEN st.pos[c] = last.x.alloc[c]
                 ELSE Mul(Mul(st.pos[c], RM(Mult[c])), AcqPrice(st, c, Sign(last.x.alloc[c])))
                        = Mul(last.x.alloc[c], last.pre)
            ELSE IsZero(st.pos[c])

\* frictionless market: no spread on any traded or held contract, no fees => NLV unchanged by the rebalance
FrictionlessNlv ==
    (last.op = "rebalance" /\ last.out = "ok" /\ IsZero(Fixed) /\ IsZero(Prop)
        /\ \A c \in C : (st.bid[c] = st.ask[c])) => last.post = last.pre

\* ... and the weights reported after the rebalance are the target weights
FrictionlessWeights ==
    (last.op = "rebalance" /\ last.out = "ok" /\ IsZero(Fixed) /\ IsZero(Prop) /\ last.wpost # <<>>
        /\ last.x.measure = "weight" /\ IsZero(last.x.thr) /\ last.x.fractional /\ last.x.absolute
        /\ \A c \in C : (st.bid[c] = st.ask[c]))
      => \A c \in C : last.wpost[c] = (IF c \in DOMAIN last.x.alloc THEN last.x.alloc[c] ELSE Zero)

\* immediately repeating the same request in a frictionless market trades nothing
SecondRebalanceIdle ==
    [][ (last.op = "rebalance" /\ last.out = "ok" /\ last'.op = "rebalance" /\ last'.out = "ok"
            /\ last'.x = last.x /\ IsZero(last.x.thr) /\ last.x.fractional /\ last.x.absolute
            /\ IsZero(Fixed) /\ IsZero(Prop) /\ IsZero(Rate) /\ IsZero(Markup)
            /\ \A c \in C : st.bid[c] = st.ask[c])
          => last'.trades = <<>> ]_vars

\* C12  trade filtering, stated declaratively on the pre-state (positions and quotes of st, NLV = last'.pre)
Imb(s, r, nlv, c) == IF r.absolute THEN Sub(TargetLots(s, r, nlv, c), s.pos[c]) ELSE TargetLots(s, r, nlv, c)
ImbWeight(s, nlv, c, imb) == Div(Mul(Mul(RM(Mult[c]), imb), AcqPrice(s, c, Sign(imb))), nlv)

TradeIff ==
    [][ (last'.op = "rebalance" /\ last'.out \in {"ok", "broke"} /\ last'.pre # NaN) =>
          LET r == last'.x  nlv == last'.pre
          IN  \A c \in C :
                LET imb  == Imb(st, r, nlv, c)
                    held == r.absolute /\ ~IsZero(st.pos[c]) /\ ~Targeted(r, c)
                    q    == IF r.fractional THEN imb ELSE RM(TruncI(imb))
                    must == /\ ~IsZero(imb)
                            /\ (held \/ Ge(RAbs(ImbWeight(st, nlv, c, imb)), r.thr))
                            /\ ~IsZero(q)
                IN  /\ (c \in DOMAIN last'.trades) <=> must
                    /\ (c \in DOMAIN last'.trades) => last'.trades[c] = q ]_vars

\* no zero-sized trade, whole lots are non-zero integers
NoZeroTrades ==
    (last.op = "rebalance" /\ last.out \in {"ok", "broke"}) =>
        /\ \A c \in DOMAIN last.trades : ~IsZero(last.trades[c])
        /\ ~last.x.fractional => \A c \in DOMAIN last.trades : IsInt(last.trades[c])

\* a rebalance is rejected only for a reason the properties allow: a quote that is needed is missing
\* (imbalances below one lot are skipped, not failing)
NoSpuriousFailure ==
    (last.op = "rebalance" /\ last.out = "error") =>
        \E c \in C : (Targeted(last.x, c) \/ ~IsZero(st.pos[c])) /\ (st.bid[c] = NaN \/ st.ask[c] = NaN)

-----------------------------------------------------------------------------
\* coverage classification of trades (anti-vacuity: every kind must occur)
Kind(old, dq) ==
    LET new == old + dq
    IN  IF old = 0 THEN "open" ELSE IF new = 0 THEN "close"
        ELSE IF (old > 0) # (new > 0) THEN "flip"
        ELSE IF IAbs(new) > IAbs(old) THEN "add" ELSE "reduce"
=============================================================================
