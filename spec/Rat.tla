------------------------------- MODULE Rat -------------------------------
(***************************************************************************)
(* Exact rational arithmetic for TLC.  A rational is a pair <<n, d>> with  *)
(* d > 0 and gcd(|n|, d) = 1.  All operators keep intermediates as small   *)
(* as possible (cross-cancellation before multiplying, lcm instead of the  *)
(* product of denominators) because TLC integers are 32 bit and TLC raises *)
(* an error on overflow (an overflow is a machinery failure, never a       *)
(* verdict).                                                                *)
(***************************************************************************)
EXTENDS Integers, Sequences

RECURSIVE GCD(_, _)
GCD(a, b) == IF b = 0 THEN a ELSE GCD(b, a % b)

IAbs(x) == IF x < 0 THEN -x ELSE x

\* Build a normalised rational from any n and any d # 0.
R(n, d) == IF d = 1 THEN <<n, 1>>
           ELSE LET s == IF d < 0 THEN -1 ELSE 1
                    g == GCD(IAbs(n), IAbs(d))
                IN  <<s * (n \div g), (s * d) \div g>>

I(n)  == <<n, 1>>
Zero  == <<0, 1>>
One   == <<1, 1>>
Num(a) == a[1]
Den(a) == a[2]
IsRat(a) == /\ a \in Seq(Int) /\ Len(a) = 2 /\ a[2] > 0

Neg(a) == <<-a[1], a[2]>>
RAbs(a) == <<IAbs(a[1]), a[2]>>
Sign(a) == IF a[1] > 0 THEN 1 ELSE IF a[1] < 0 THEN -1 ELSE 0
IsZero(a) == a[1] = 0
IsInt(a) == a[2] = 1

Add(a, b) ==
    IF a[2] = b[2] THEN R(a[1] + b[1], a[2])
    ELSE LET g == GCD(a[2], b[2])
             l == (a[2] \div g) * b[2]
         IN  R(a[1] * (l \div a[2]) + b[1] * (l \div b[2]), l)
Sub(a, b) == Add(a, Neg(b))

Mul(a, b) ==
    IF a[1] = 0 \/ b[1] = 0 THEN Zero
    ELSE IF a[2] = 1 /\ b[2] = 1 THEN <<a[1] * b[1], 1>>
    ELSE LET g1 == GCD(IAbs(a[1]), b[2])
             g2 == GCD(IAbs(b[1]), a[2])
         IN  <<(a[1] \div g1) * (b[1] \div g2), (a[2] \div g2) * (b[2] \div g1)>>
Inv(a) == IF a[1] > 0 THEN <<a[2], a[1]>> ELSE <<-a[2], -a[1]>>     \* a # 0
Div(a, b) == Mul(a, Inv(b))
MulI(a, k) == Mul(a, <<k, 1>>)

\* comparisons through the lcm of the denominators
Lt(a, b) ==
    IF a[2] = b[2] THEN a[1] < b[1]
    ELSE LET g == GCD(a[2], b[2])
         IN  a[1] * (b[2] \div g) < b[1] * (a[2] \div g)
Le(a, b) == a = b \/ Lt(a, b)
Gt(a, b) == Lt(b, a)
Ge(a, b) == Le(b, a)
RMax(a, b) == IF Lt(a, b) THEN b ELSE a
RMin(a, b) == IF Lt(a, b) THEN a ELSE b

\* integer part, truncating toward zero (Python's int())
TruncI(a) == IF a[1] >= 0 THEN a[1] \div a[2] ELSE -((-a[1]) \div a[2])
FloorI(a) == a[1] \div a[2]

RECURSIVE SumSeq(_)
SumSeq(s) == IF s = <<>> THEN Zero ELSE Add(Head(s), SumSeq(Tail(s)))
=============================================================================
