---------------------------- MODULE NoLookahead ----------------------------
(***************************************************************************)
(* C02 as a 2-safety property, decided by self-composition: two copies A   *)
(* and B of the environment of Env.tla run in lock-step on two event       *)
(* streams that contain the same events stamped <= cut (what comes later   *)
(* is arbitrary: other events, other values, other insertion positions),   *)
(* with the same configuration and the same actions.  Everything a call    *)
(* returns or records by the time a step lands on a timestep <= cut must   *)
(* be identical, and if the streams also agree on (cut, cut + latency] so  *)
(* is the execution of the following step.                                 *)
(***************************************************************************)
EXTENDS TransmitterOps

CONSTANTS Grid, Cand, Mandatory, MaxOpt, Lats, Folds, Modes, Delays, EpLens, ResetLens, Spaces, Bads, DayLen, MaxCalls, ResetAnywhere,
          ClockRule, HistoryOrder, NullRule, StartStride,
          Cuts          \* set of cut times

VARIABLES cfgA, envA, elogA, execsA, retA, histA, ncallsA,
          cfgB, envB, elogB, execsB, retB, histB, ncallsB, cut
vars == <<cfgA, envA, elogA, execsA, retA, histA, ncallsA, cfgB, envB, elogB, execsB, retB, histB, ncallsB, cut>>

A == INSTANCE Env WITH cfg <- cfgA, env <- envA, elog <- elogA, execs <- execsA, ret <- retA, hist <- histA, ncalls <- ncallsA
B == INSTANCE Env WITH cfg <- cfgB, env <- envB, elog <- elogB, execs <- execsB, ret <- retB, hist <- histB, ncalls <- ncallsB

UpTo(c, t) == SelectSeq(c.events, LAMBDA e : e.t <= t)
SameConfig == /\ cfgA.lat = cfgB.lat /\ cfgA.fstart = cfgB.fstart /\ cfgA.fend = cfgB.fend
              /\ cfgA.markov = cfgB.markov /\ cfgA.warmup = cfgB.warmup /\ cfgA.delay = cfgB.delay
              /\ cfgA.eplen = cfgB.eplen /\ cfgA.space = cfgB.space /\ cfgA.bad = cfgB.bad

Init == /\ A!Init /\ B!Init
        /\ cut \in Cuts
        /\ SameConfig
        /\ UpTo(cfgA, cut) = UpTo(cfgB, cut)
        /\ cfgA.events # cfgB.events            \* the two streams really differ after the cut

\* lock-step: the same call on both sides (a reset asks for the same episode length and draws the same start)
LastRec(h) == h[Len(h)]
Next == /\ UNCHANGED cut
        /\ \/ (A!Reset /\ B!Reset /\ LastRec(histA').start = LastRec(histB').start
                                   /\ LastRec(histA').act = LastRec(histB').act)
           \/ (A!Step /\ B!Step)
Spec == Init /\ [][Next]_vars

-----------------------------------------------------------------------------
\* time of the timestep a call lands on (reset: the first of the episode; j-th step: the (j+1)-th)
Landing(env, c, j) == IF j + 1 <= Len(env.steps) THEN c.grid[env.steps[j + 1]] ELSE 2000000000

\* what a call returned or recorded: outcome, done flag, clock, delivered notifications, execution
Out(r) == [call |-> r.call, out |-> r.out, done |-> r.done, now |-> r.now, log |-> r.log, exec |-> r.exec]

\* index of a history record within its episode (0 for the reset)
EpIdx(h, i) == Cardinality({m \in 1..i : h[m].call = "step"
                                /\ ~\E r \in (m + 1)..i : h[r].call = "reset"})

PrefixEqual ==
    \A i \in 1..Len(histA) :
        (histA[i].out = "ok" /\ histB[i].out = "ok"
            /\ Landing(envA, cfgA, EpIdx(histA, i)) <= cut
            /\ \A r \in (i + 1)..Len(histA) : histA[r].call # "reset")       \* calls of the current episode
          => Out(histA[i]) = Out(histB[i])

\* if the streams also agree on (cut, cut + latency], the execution of the step that follows cut is the same
NextExecCut ==
    (UpTo(cfgA, cut + cfgA.lat) = UpTo(cfgB, cut + cfgB.lat)) =>
        \A i \in 1..Len(histA) :
            (histA[i].call = "step" /\ histA[i].out = "ok" /\ histB[i].out = "ok"
                /\ Landing(envA, cfgA, EpIdx(histA, i) - 1) <= cut
                /\ \A r \in (i + 1)..Len(histA) : histA[r].call # "reset")
              => histA[i].exec = histB[i].exec
=============================================================================
