------------------------------ MODULE Interest ------------------------------
(***************************************************************************)
(* Interest on cash (broker.py accrued_interest / rebalance) on a          *)
(* cash-only account under a constant rate, with arbitrary second-level    *)
(* cuts.  The compounding factor is irrational, so the model keeps the     *)
(* EXPONENT symbolically: the balance is B0 x base^(expo / Y) where expo   *)
(* counts the seconds compounded into it and Y = 31 536 000; the harness   *)
(* evaluates the closed form with 50-digit decimals.  TLC decides the      *)
(* bookkeeping: which seconds are counted, no double counting, queries are *)
(* pure, earlier times are rejected, the split does not matter.  C06.      *)
(***************************************************************************)
EXTENDS Integers, Sequences, TLC

CONSTANTS
    Regimes,     \* set of regime names (the harness knows rate and markup of each)
    Signs,       \* subset of {1, -1}: sign of the cash balance
    Incs,        \* set of time increments in seconds
    MaxCalls,
    MaxT         \* keep times within 32 bits

NoTime == -1

VARIABLES regime, sign, clk, first, acc, expo, lastReb, last, hist, n
vars == <<regime, sign, clk, first, acc, expo, lastReb, last, hist, n>>

Init == /\ regime \in Regimes
        /\ sign \in Signs
        /\ clk = 0
        /\ first = NoTime
        /\ acc = NoTime
        /\ expo = 0
        /\ lastReb = NoTime
        /\ last = [op |-> "init", t |-> 0, out |-> "ok", from |-> 0, span |-> 0]
        /\ hist = <<>>
        /\ n = 0

Log(o) == last' = o /\ hist' = Append(hist, o) /\ n' = n + 1

\* one call of accrued_interest(now = t, accrue): the first call of either kind starts the clock
\* the amount returned is  balance x (base^(span / Y) - 1)  with balance = B0 x base^(from / Y)
Call(op, t, accrue) ==
    LET a0 == IF acc = NoTime THEN t ELSE acc
        f0 == IF first = NoTime THEN t ELSE first
        \* a rebalance of an account whose only holding is borrowed cash accrues, then signals insolvency
        okout == IF op = "rebalance" /\ sign < 0 THEN "broke" ELSE "ok"
    IN  IF t < a0
        THEN /\ UNCHANGED <<first, acc, expo>>
             /\ Log([op |-> op, t |-> t, out |-> "error", from |-> expo, span |-> 0])
        ELSE /\ first' = f0
             /\ acc' = IF accrue THEN t ELSE a0
             /\ expo' = IF accrue THEN expo + (t - a0) ELSE expo
             /\ Log([op |-> op, t |-> t, out |-> okout, from |-> expo, span |-> t - a0])

Query(dt) == /\ dt <= MaxT - clk /\ clk' = clk + dt
             /\ Call("query", clk + dt, FALSE) /\ UNCHANGED lastReb
Accrue(dt) == /\ dt <= MaxT - clk /\ clk' = clk + dt
              /\ Call("accrue", clk + dt, TRUE) /\ UNCHANGED lastReb
\* a rebalance that trades nothing accrues as well (and checkpoints: its time stamp must be new)
Rebalance(dt) == /\ dt <= MaxT - clk /\ clk' = clk + dt
                 /\ clk + dt # lastReb
                 /\ Call("rebalance", clk + dt, TRUE)
                 /\ lastReb' = IF sign > 0 /\ clk + dt >= (IF acc = NoTime THEN clk + dt ELSE acc) THEN clk + dt ELSE lastReb
\* a time earlier than the last accrual; the clock itself does not go back
Earlier(back) == /\ acc # NoTime /\ acc - back >= 0
                 /\ Call("accrue", acc - back, TRUE) /\ UNCHANGED <<clk, lastReb>>

Next == /\ n < MaxCalls
        /\ UNCHANGED <<regime, sign>>
        /\ \/ \E dt \in Incs \cup {0} : Query(dt) \/ Accrue(dt) \/ Rebalance(dt)
           \/ \E b \in {1, 3600} : Earlier(b)

Spec == Init /\ [][Next]_vars
-----------------------------------------------------------------------------
ClockStartsAtFirstCall == (acc = NoTime) <=> (\A i \in 1..Len(hist) : hist[i].out = "error") /\ (first = NoTime <=> acc = NoTime)

\* asking without accruing changes nothing once the clock runs
QueryPure == [][ (last'.op = "query" /\ acc # NoTime) => (expo' = expo /\ acc' = acc /\ first' = first) ]_vars
\* accruing again at the same instant adds nothing
NoDoubleAccrual == [][ (last'.op \in {"accrue", "rebalance"} /\ last'.out # "error" /\ last'.t = acc) => expo' = expo ]_vars
\* a time earlier than the last accrual is rejected and changes nothing
RejectEarlier == [][ (acc # NoTime /\ last'.t < acc /\ hist' # hist) => (last'.out = "error" /\ expo' = expo /\ acc' = acc) ]_vars
\* however the interval is cut, the balance has compounded over exactly the time since the first call
SplitInvariant == acc # NoTime => expo = acc - first
\* every amount is computed on the current balance over the time since the last accrual
AmountBase == last.out # "error" /\ last.op # "init" => last.from + last.span <= clk - first + 0 /\ last.span >= 0
=============================================================================
