------------------------------ MODULE Metrics ------------------------------
(***************************************************************************)
(* Textbook definitions of the performance metrics of tradingenv.metrics   *)
(* over exact rationals, for every small level series in bounds.  Where a  *)
(* metric is irrational the model keeps its rational core (variance        *)
(* instead of volatility, last/first and the day count instead of CAGR,    *)
(* mean squared drawdown instead of the ulcer index) and the harness takes *)
(* the root / power.  Decides C16 on the bounded domain.                   *)
(*                                                                         *)
(* A series is a sequence of observations [day, sec, v]: calendar day      *)
(* offset, second within the day, integer level.                           *)
(***************************************************************************)
EXTENDS Rat, FiniteSets, TLC

CONSTANTS
    Patterns,    \* set of index patterns: sequences of <<day, sec>>, strictly increasing
    Levels,      \* set of integer levels
    Scales       \* set of integer scale factors for the invariance check

VARIABLES s, m
vars == <<s, m>>

Obs(pat, vals) == [i \in 1..Len(pat) |-> [day |-> pat[i][1], sec |-> pat[i][2], v |-> vals[i]]]

\* level(): the last observation of each calendar day
Daily(x) == SelectSeq(x, LAMBDA o : ~\E q \in {x[i] : i \in 1..Len(x)} : q.day = o.day /\ q.sec > o.sec)
Vals(x) == [i \in 1..Len(x) |-> I(x[i].v)]

Returns(l) == [i \in 1..(Len(l) - 1) |-> Sub(Div(l[i + 1], l[i]), One)]

RECURSIVE SumR(_)
SumR(q) == IF q = <<>> THEN Zero ELSE Add(Head(q), SumR(Tail(q)))
Mean(q) == Div(SumR(q), I(Len(q)))
\* sample variance (n - 1 in the denominator); undefined (NaN sentinel) below two observations
NoValue == <<0, 0>>
Var(q) == IF Len(q) < 2 THEN NoValue
          ELSE LET mu == Mean(q) IN Div(SumR([i \in 1..Len(q) |-> Mul(Sub(q[i], mu), Sub(q[i], mu))]), I(Len(q) - 1))

RunMax(l, i) == LET S == {l[j] : j \in 1..i} IN CHOOSE a \in S : \A b \in S : Le(b, a)
Drawdown(l) == [i \in 1..Len(l) |-> Sub(Div(l[i], RunMax(l, i)), One)]
MinOf(q) == LET S == {q[i] : i \in 1..Len(q)} IN CHOOSE a \in S : \A b \in S : Le(a, b)

\* ascending sort of a sequence of rationals (insertion)
RECURSIVE Ins(_, _)
Ins(a, q) == IF q = <<>> THEN <<a>> ELSE IF Lt(a, Head(q)) THEN <<a>> \o q ELSE <<Head(q)>> \o Ins(a, Tail(q))
RECURSIVE SortR(_)
SortR(q) == IF q = <<>> THEN <<>> ELSE Ins(Head(q), SortR(Tail(q)))

\* quantile with linear interpolation at position (n - 1) x quant (0-based)
Quantile(q, quant) ==
    LET srt == SortR(q)
        pos == Mul(I(Len(q) - 1), quant)
        lo  == FloorI(pos)
        fr  == Sub(pos, I(lo))
    IN  IF lo + 2 <= Len(srt) THEN Add(srt[lo + 1], Mul(fr, Sub(srt[lo + 2], srt[lo + 1]))) ELSE srt[lo + 1]

Q025 == <<1, 40>>

MetricsOf(x) ==
    LET d  == Daily(x)
        l  == Vals(d)
        r  == Returns(l)
        dd == Drawdown(l)
        var == Quantile(r, Q025)
        tail == SelectSeq(r, LAMBDA a : Le(a, var))
    IN  [ ndaily   |-> Len(d),
          days     |-> x[Len(x)].day - x[1].day - (IF x[Len(x)].sec < x[1].sec THEN 1 ELSE 0),
          ratio    |-> Div(l[Len(l)], l[1]),                 \* (1 + CAGR)^years = last / first
          returns  |-> r,
          variance |-> Var(r),                               \* volatility^2 / 252
          drawdown |-> dd,
          maxdd    |-> MinOf(dd),
          var025   |-> var,
          es025    |-> Mean(tail),
          downvar  |-> Var(SelectSeq(r, LAMBDA a : Sign(a) < 0)),
          upvar    |-> Var(SelectSeq(r, LAMBDA a : Sign(a) > 0)),
          ulcer2   |-> Mean([i \in 1..Len(dd) |-> Mul(dd[i], dd[i])]) ]

\* a benchmark on the same index: levels 1, 3, 2, 1, 3, 2 ...
Bench(x) == [i \in 1..Len(x) |-> [x[i] EXCEPT !.v = ((2 * i) % 3) + 1]]
\* tracking variance: sample variance of the excess returns over the benchmark (tracking error^2 / 252)
TrackVar(x) ==
    LET r  == Returns(Vals(Daily(x)))
        rb == Returns(Vals(Daily(Bench(x))))
    IN  Var([i \in 1..Len(r) |-> Sub(r[i], rb[i])])

Scaled(x, k) == [i \in 1..Len(x) |-> [x[i] EXCEPT !.v = k * x[i].v]]

Init == /\ \E pat \in Patterns : \E vals \in [1..Len(pat) -> Levels] : s = Obs(pat, vals)
        /\ Len(Daily(s)) >= 2
        /\ m = MetricsOf(s) @@ [trackvar |-> TrackVar(s)]
Next == UNCHANGED vars

-----------------------------------------------------------------------------
ScaleInvariant == \A k \in Scales : (MetricsOf(Scaled(s, k)) @@ [trackvar |-> TrackVar(Scaled(s, k))]) = m
DrawdownRange ==
    /\ \A i \in 1..Len(m.drawdown) : Le(m.drawdown[i], Zero) /\ Lt(<<-1, 1>>, m.drawdown[i])
    /\ \A i \in 1..Len(m.drawdown) :
          LET l == Vals(Daily(s)) IN (\A j \in 1..i : Le(l[j], l[i])) => IsZero(m.drawdown[i])
    /\ m.maxdd = MinOf(m.drawdown)
ReturnsCompound ==
    LET l == Vals(Daily(s))
        RECURSIVE Prod(_)
        Prod(q) == IF q = <<>> THEN One ELSE Mul(Add(One, Head(q)), Prod(Tail(q)))
    IN  Prod(m.returns) = m.ratio
TailBelowVar == Le(m.es025, m.var025) /\ Le(MinOf(m.returns), m.var025)
=============================================================================
