--------------------------- MODULE CalendarLead ---------------------------
(* C11 (lead half): which listed contract does a futures chain resolve to at a given instant. *)
EXTENDS Calendar
CONSTANTS LeadClasses, LeadYears, Offsets, DayStride
VARIABLES q, lead

MinY == CHOOSE y \in LeadYears : \A z \in LeadYears : y <= z
MaxY == CHOOSE y \in LeadYears : \A z \in LeadYears : y >= z

\* listed (year, month) pairs of the class over LeadYears, ascending
Listed(cls) ==
    LET mseq == IF cls = "VX" THEN [i \in 1..12 |-> i] ELSE <<3, 6, 9, 12>>
        k == Len(mseq)
        n == Cardinality(LeadYears) * k
    IN  [i \in 1..n |-> <<MinY + ((i - 1) \div k), mseq[((i - 1) % k) + 1]>>]

\* an instant is <<day, second>>; last-trading instants are at midnight
Before(a, b) == a[1] < b[1] \/ (a[1] = b[1] /\ a[2] < b[2])
LtdOf(cls, ym) == <<Cutoff(cls, ym[1], ym[2]), 0>>

\* LeadDef: the listed contract with the earliest last-trading instant strictly later than now,
\* shifted by the month offset (0 when it falls off the chain)
LeadOf(cls, now, off) ==
    LET ls == Listed(cls)
        later == {i \in 1..Len(ls) : Before(now, LtdOf(cls, ls[i]))}
    IN  IF later = {} THEN 0
        ELSE LET i == CHOOSE x \in later : \A z \in later : x <= z
             IN  IF i + off <= Len(ls) THEN i + off ELSE 0

\* probes: every DayStride-th midnight of the span, and every last-trading instant -1 s, exact, +1 s
Probes(cls) ==
    {<<d, 0>> : d \in {x \in DaysFromCivil(MinY, 1, 1)..DaysFromCivil(MaxY, 12, 31) : x % DayStride = 0}}
    \cup UNION {{<<l - 1, 86399>>, <<l, 0>>, <<l, 1>>} : l \in {Cutoff(cls, Listed(cls)[i][1], Listed(cls)[i][2]) : i \in 1..Len(Listed(cls))}}

LeadInit ==
    /\ \E cls \in LeadClasses, off \in Offsets : \E now \in Probes(cls) : q = [cls |-> cls, off |-> off, now |-> now]
    /\ lead = LeadOf(q.cls, q.now, q.off)
LeadNext == UNCHANGED <<q, lead>>

\* the resolved contract is never past its last trading date; un-shifted it is the earliest such
LeadLive ==
    (lead # 0) =>
        LET ls == Listed(q.cls)
            base == lead - q.off
        IN  /\ Before(q.now, LtdOf(q.cls, ls[lead]))
            /\ base > 1 => ~Before(q.now, LtdOf(q.cls, ls[base - 1]))
=============================================================================
