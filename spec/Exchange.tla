----------------------------- MODULE Exchange -----------------------------
(***************************************************************************)
(* All interleavings of quote and discontinuation events over assets,      *)
(* futures and a futures chain, with the simulation clock moving across    *)
(* the chain's last-trading instants.  Decides C14.                        *)
(***************************************************************************)
EXTENDS ExchangeOps

CONSTANTS Bids, Spreads, Times, MaxDepth, QuoteKeys

VARIABLES books, gnow, last, hist, n
vars == <<books, gnow, last, hist, n>>
view == <<books, gnow, last, n>>
\* abstraction for an exploration WITHOUT a depth bound: what a book shows, whether it lives, and the last entry of its history
\* (not the whole history, not how many operations came before).  The set of abstract states is finite, so TLC reaches a
\* fixpoint: the state invariants below then hold after histories of ANY length over the model's data.  (Action properties
\* are checked on the depth-bounded model, which keeps the whole state.)
LastH(b) == IF b.hist = <<>> THEN <<>> ELSE b.hist[Len(b.hist)]
fview == <<[c \in Contracts |-> [bid |-> books[c].bid, ask |-> books[c].ask, alive |-> books[c].alive, time |-> books[c].time,
                                 lh |-> LastH(books[c])]], gnow>>

Init == /\ books = [c \in Contracts |-> NewBook]
        /\ gnow = 0
        /\ last = [op |-> "init", k |-> "-", bid |-> 0, ask |-> 0, t |-> 0, out |-> "ok"]
        /\ hist = <<>>
        /\ n = 0

Log(o) == last' = o /\ hist' = Append(hist, o) /\ n' = n + 1

\* Exchange.process_EventNBBO
Quote(k, b, s) ==
    /\ k \in QuoteKeys
    /\ IF Resolvable(k, gnow)
       THEN /\ books' = [books EXCEPT ![Resolve(k, gnow)] = UpdateB(@, b, b + s, gnow)]
            /\ Log([op |-> "quote", k |-> k, bid |-> b, ask |-> b + s, t |-> gnow, out |-> "ok"])
       ELSE /\ UNCHANGED books
            /\ Log([op |-> "quote", k |-> k, bid |-> b, ask |-> b + s, t |-> gnow, out |-> "error"])
    /\ UNCHANGED gnow

\* Exchange.process_EventContractDiscontinued
Disc(k) ==
    /\ k \in QuoteKeys
    /\ IF Resolvable(k, gnow)
       THEN /\ books' = [books EXCEPT ![Resolve(k, gnow)] = TerminateB(@, gnow)]
            /\ Log([op |-> "disc", k |-> k, bid |-> 0, ask |-> 0, t |-> gnow, out |-> "ok"])
       ELSE /\ UNCHANGED books
            /\ Log([op |-> "disc", k |-> k, bid |-> 0, ask |-> 0, t |-> gnow, out |-> "error"])
    /\ UNCHANGED gnow

\* the simulation clock moves forward (AbstractContract.now)
Advance(t) ==
    /\ t > gnow
    /\ gnow' = t
    /\ UNCHANGED books
    /\ Log([op |-> "advance", k |-> "-", bid |-> 0, ask |-> 0, t |-> t, out |-> "ok"])

Next == /\ n < MaxDepth
        /\ \/ \E k \in QuoteKeys, b \in Bids, s \in Spreads : Quote(k, b, s)
           \/ \E k \in QuoteKeys : Disc(k)
           \/ \E t \in Times : Advance(t)

Spec == Init /\ [][Next]_vars

-----------------------------------------------------------------------------
\* what a query through key k reports
View(k) == IF Resolvable(k, gnow) THEN books[Resolve(k, gnow)] ELSE "unresolvable"

\* last quote wins: a live book shows its most recent accepted quote, a never-quoted one shows nothing
LastQuoteWins ==
    \A c \in Contracts :
        books[c].alive =>
            IF books[c].hist = <<>> THEN books[c].bid = NoPrice /\ books[c].ask = NoPrice
            ELSE LET h == books[c].hist[Len(books[c].hist)]
                 IN  books[c].bid = h[2] /\ books[c].ask = h[3]

\* per-contract isolation: an event touches the book it addresses and no other
Isolation ==
    [][ \A c \in Contracts :
          (last'.op \in {"quote", "disc"} /\ last'.out = "ok" /\ c # Resolve(last'.k, gnow)) => books'[c] = books[c] ]_vars

DeadStaysDead ==
    [][ \A c \in Contracts :
          ~books[c].alive => (/\ ~books'[c].alive /\ books'[c].bid = NoPrice /\ books'[c].ask = NoPrice
                              /\ books'[c].hist = books[c].hist) ]_vars

DeadShowsNoPrice == \A c \in Contracts : ~books[c].alive => books[c].bid = NoPrice /\ books[c].ask = NoPrice

IsPrefix(s, t) == Len(s) <= Len(t) /\ SubSeq(t, 1, Len(s)) = s
HistoryAppendOnly ==
    [][ \A c \in Contracts :
          /\ IsPrefix(books[c].hist, books'[c].hist)
          /\ Len(books'[c].hist) <= Len(books[c].hist) + 1
          /\ (last'.op = "quote" /\ last'.out = "ok" /\ c = Resolve(last'.k, gnow) /\ books[c].alive)
                => books'[c].hist = Append(books[c].hist, <<gnow, last'.bid, last'.ask>>) ]_vars

\* the chain key addresses the listed contract with the earliest last-trading time strictly later than now
ChainAlias ==
    LeadOk(gnow) => /\ ChainLtd[LeadIdx(gnow)] > gnow
                    /\ \A i \in 1..Len(ChainLtd) : ChainLtd[i] > gnow => i >= LeadIdx(gnow)
LeadMonotone == [][ LeadIdx(gnow') >= LeadIdx(gnow) ]_vars

ExecSide == \A c \in Contracts :
    /\ Acq2(books[c], 1) = (IF books[c].ask = NoPrice THEN NoPrice ELSE 2 * books[c].ask)
    /\ Acq2(books[c], -1) = (IF books[c].bid = NoPrice THEN NoPrice ELSE 2 * books[c].bid)
    /\ Liq2(books[c], 1) = Acq2(books[c], -1)
=============================================================================
