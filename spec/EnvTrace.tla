------------------------------ MODULE EnvTrace ------------------------------
(***************************************************************************)
(* Trace validation for the environment's event loop on REAL executions:   *)
(* the repository's own regression back-tests (ETF portfolios, a futures   *)
(* roll, high-frequency data, features with history) run under a pytest    *)
(* plugin that records, per reset/step call, every notification that went  *)
(* through TradingEnv.notify (kind, event time, clock after dispatch), the *)
(* executions (position in that log, stamp) and what the call returned.    *)
(* Their prices are off any grid, so this specification checks the         *)
(* structural clauses of C04 / C07 / C09 that need no numbers:             *)
(*   order      timestamps never go backwards, within and across calls     *)
(*   clock      every notification is dispatched under clock = its own     *)
(*              time; reset / step / done / new-date notifications carry   *)
(*              the time of the latest market event processed              *)
(*   newdate    exactly one new-date notification, stamped with the        *)
(*              previous event, wherever the calendar date changes         *)
(*   stamp      an execution is stamped with the latest event processed    *)
(*              before it; stamps strictly increase                        *)
(*   ended      no call succeeds after done until the next reset           *)
(* One initial state per trace; every line (= one call) is consumed.       *)
(***************************************************************************)
EXTENDS Integers, Sequences, TLC, Json, IOUtils

CONSTANT ExpectedStates

Traces == JsonDeserialize(IOEnv.TRACE_FILE)

VARIABLES tid, l, prev, lastMkt, lastStamp, done, verdict
vars == <<tid, l, prev, lastMkt, lastStamp, done, verdict>>

None == [kind |-> "none", t |-> -1, clk |-> -1, m |-> -1]
Market == {"q", "x", "d"}
Day(t) == t \div 86400

Init == /\ tid \in 1..Len(Traces)
        /\ l = 1
        /\ prev = None
        /\ lastMkt = -1
        /\ lastStamp = -1
        /\ done = FALSE
        /\ verdict = <<>>

\* Checks over the notifications of one call, written as quantifications over positions (logs of a reset carry the
\* whole history - thousands of entries - so no recursion).  Each entry logs m = time of the latest market event
\* before it; the recorder's value is not trusted: it is re-derived pairwise from its predecessor.
Pred(log, i, p0) == IF i = 1 THEN p0 ELSE log[i - 1]
MktBefore(log, i, p0, m0) ==
    IF i = 1 THEN m0
    ELSE IF log[i - 1].kind \in Market THEN log[i - 1].t ELSE log[i - 1].m

BadAt(log, i, p0, m0) ==
    LET e == log[i]
        p == Pred(log, i, p0)
        succ == IF i < Len(log) THEN log[i + 1] ELSE None
    IN  (IF e.m # MktBefore(log, i, p0, m0) THEN {"recorder"} ELSE {})
        \cup (IF p.kind # "none" /\ e.t < p.t THEN {"order"} ELSE {})
        \cup (IF e.clk # e.t THEN {"clock"} ELSE {})
        \cup (IF e.kind \notin Market /\ e.kind # "newdate" /\ e.m # -1 /\ e.t # e.m THEN {"clock"} ELSE {})
        \* a date change must be announced by a new-date notification stamped with the previous event
        \cup (IF e.kind # "newdate" /\ p.kind \notin {"none", "newdate"} /\ Day(p.t) # Day(e.t) THEN {"newdate"} ELSE {})
        \cup (IF e.kind = "newdate" /\ (p.kind = "none" \/ e.t # p.t \/ (succ.kind # "none" /\ Day(succ.t) = Day(e.t)))
              THEN {"newdate"} ELSE {})

Walk(log, p0, m0) ==
    [prev |-> IF log = <<>> THEN p0 ELSE log[Len(log)],
     mkt  |-> IF log = <<>> THEN m0
              ELSE IF log[Len(log)].kind \in Market THEN log[Len(log)].t ELSE log[Len(log)].m,
     bad  |-> UNION {BadAt(log, i, p0, m0) : i \in 1..Len(log)}]

\* time of the latest notification strictly before position pos of the call's log (or carried over from earlier calls)
Before(log, pos, carry) == IF pos >= 1 /\ pos <= Len(log) THEN log[pos].t ELSE carry

Step ==
    /\ l <= Len(Traces[tid].calls)
    /\ verdict = <<>>
    /\ LET c == Traces[tid].calls[l]
           isreset == c.call = "reset"
           p0 == IF isreset THEN None ELSE prev
           m0 == IF isreset THEN -1 ELSE lastMkt
           w == Walk(c.log, p0, m0)
           stampbad ==
               IF c.exec = <<>> THEN {}
               ELSE LET x == c.exec[1]
                        expected == Before(c.log, x.pos, p0.t)
                    IN  (IF x.stamp # expected THEN {"stamp"} ELSE {})
                        \cup (IF ~isreset /\ lastStamp # -1 /\ x.stamp <= lastStamp THEN {"stamp"} ELSE {})
           endedbad == IF ~isreset /\ done /\ c.out = "ok" THEN {"ended"} ELSE {}
           nowbad == IF c.out = "ok" /\ w.prev.kind # "none" /\ c.now # w.prev.t THEN {"clock"} ELSE {}
           all == w.bad \cup stampbad \cup endedbad \cup nowbad
       IN  /\ prev' = w.prev
           /\ lastMkt' = w.mkt
           /\ lastStamp' = IF c.exec # <<>> THEN c.exec[1].stamp ELSE IF isreset THEN -1 ELSE lastStamp
           /\ done' = IF isreset THEN c.done ELSE (done \/ c.done)
           /\ verdict' = IF all = {} THEN <<>> ELSE <<CHOOSE x \in all : TRUE>>
    /\ l' = l + 1
    /\ UNCHANGED tid

Next == Step
Accepted == verdict = <<>>
AllConsumed == TLCGet("distinct") = ExpectedStates
=============================================================================
