----------------------------- MODULE LedgerOps -----------------------------
(***************************************************************************)
(* Functional core of the broker account of tradingenv: pure operators     *)
(* mapping a ledger record and an operation to the next ledger record and  *)
(* an outcome class.  The same operators are used by the state machines    *)
(* (Broker.tla, EnvFull.tla), by the replay generators and by the trace    *)
(* specifications, so there is one source of truth.                        *)
(*                                                                         *)
(* Each operator follows the code's own critical sections in order         *)
(* (broker.py: transact = mark; commission + cash cost; resize margin;     *)
(* re-base the reference price; re-mark).  Where the pinned code deviates  *)
(* from the property the deviation is a named constant (RefRule, SpotMult, *)
(* SubLot); the first value is the pinned code and is used only by the     *)
(* negative-control models.                                                *)
(*                                                                         *)
(* Ledger record                                                           *)
(*   bid, ask : [C -> Rat \cup {NaN}]   order books (exchange.py)          *)
(*   alive    : [C -> BOOLEAN]                                             *)
(*   pos      : [C -> Rat]              Broker._holdings_quantity          *)
(*   cash     : Rat                     base-currency balance              *)
(*   mrg      : [C -> Rat]              Broker._holdings_margins           *)
(*   ref      : [C -> Rat \cup {None}]  last marking-to-market price       *)
(*   acc      : Int \cup {NoTime}        time of the last interest accrual  *)
(*                                      (in years of 365 days)             *)
(***************************************************************************)
EXTENDS Rat, FiniteSets, TLC

CONSTANTS
    C,          \* set of tradable contracts
    Mult,       \* [C -> Nat \ {0}]   contract multiplier
    CashReq,    \* [C -> {0, 1}]      1: paid in full (spot-like); 0: nothing paid upfront
    Mr,         \* [C -> Rat]         margin requirement (<<0,1>> for spot-like)
    Fixed,      \* Rat                fixed fee per trade
    Prop,       \* Rat                proportional fee on |notional|
    Deposit,    \* Rat                initial cash
    Rate,       \* Rat                reference rate (constant per behaviour when RatePath is empty)
    RatePath,   \* sequence of <<t, Rat>>, ascending in t: the rate published at time t (model years); <<>>: Rate throughout
    Markup,     \* Rat                broker markup
    Epsilon,    \* Rat                positions smaller than this in absolute value are zeroed after a trade (0: never)
    RefRule,    \* "exec_only" (pinned code) | "carry" (the property)
    SpotMult,   \* "omitted"   (pinned code) | "applied" (the property)
    SubLot      \* "raise"     (pinned code) | "skip" (the property)

\* sentinels are pairs too, so that they can be compared with rationals (TLC refuses to
\* compare a tuple with a string); no rational has a denominator <= 0
NaN  == <<0, 0>>
None == <<0, -1>>
NoTime == -1
IsNum(x) == x # NaN

RM(k) == <<k, 1>>

-----------------------------------------------------------------------------
\* exchange.py : LimitOrderBook

Mid(st, c) == IF st.bid[c] = NaN \/ st.ask[c] = NaN THEN NaN
              ELSE Div(Add(st.bid[c], st.ask[c]), RM(2))

\* price paid when acquiring a quantity of sign sgn (ask for a buy, bid for a sale, mid if flat)
AcqPrice(st, c, sgn) == IF sgn < 0 THEN st.bid[c] ELSE IF sgn > 0 THEN st.ask[c] ELSE Mid(st, c)
LiqPrice(st, c, sgn) == AcqPrice(st, c, -sgn)
Liq(st, c) == LiqPrice(st, c, Sign(st.pos[c]))

QuoteF(st, c, b, a) ==      \* Exchange.process_EventNBBO: dead books ignore updates
    IF st.alive[c] THEN [st EXCEPT !.bid[c] = b, !.ask[c] = a] ELSE st

DiscontinueF(st, c) ==      \* LimitOrderBook.terminate
    [st EXCEPT !.bid[c] = NaN, !.ask[c] = NaN, !.alive[c] = FALSE]

-----------------------------------------------------------------------------
\* broker.py : marking_to_market

MarkF(st, c) ==
    IF IsZero(Mr[c]) THEN st
    ELSE LET q   == st.pos[c]
             liq == LiqPrice(st, c, Sign(q))
         IN  IF liq = NaN \/ st.ref[c] = None THEN st
             ELSE LET profit == Mul(Mul(q, RM(Mult[c])), Sub(liq, st.ref[c]))
                      target == Mul(Mul(Mul(liq, RAbs(q)), RM(Mult[c])), Mr[c])
                      excess == Sub(Add(st.mrg[c], profit), target)
                  IN  [st EXCEPT !.mrg[c] = target, !.ref[c] = liq,
                                 !.cash = Add(st.cash, excess)]

RECURSIVE MarkSeq(_, _)
MarkSeq(st, cs) == IF cs = {} THEN st
                   ELSE LET c == CHOOSE x \in cs : TRUE IN MarkSeq(MarkF(st, c), cs \ {c})
MarkAllF(st) == MarkSeq(st, C)      \* order irrelevant: each mark touches its own contract and adds to cash

-----------------------------------------------------------------------------
\* broker.py : holdings_values / net_liquidation_value

NeedsQuote(st, c) == ~IsZero(st.pos[c]) /\ Liq(st, c) = NaN
Valuable(st) == \A c \in C : ~NeedsQuote(st, c)

\* liquidation value of one position (after marking)
LiqValue(st, c) ==
    IF IsZero(st.pos[c]) THEN Zero
    ELSE LET base == Mul(Mul(RM(CashReq[c]), st.pos[c]), Liq(st, c))
             paid == IF SpotMult = "applied" THEN Mul(base, RM(Mult[c])) ELSE base
         IN  Add(paid, st.mrg[c])

RECURSIVE SumLiq(_, _)
SumLiq(st, cs) ==
    IF cs = {} THEN Zero
    ELSE LET c == CHOOSE x \in cs : TRUE IN Add(LiqValue(st, c), SumLiq(st, cs \ {c}))

\* ValueF: the account is marked first (the marking survives a failing valuation)
ValueF(st, raise) ==
    LET m == MarkAllF(st)
    IN  IF ~Valuable(m) THEN [st |-> m, out |-> "error", nlv |-> NaN]
        ELSE LET nlv == Add(m.cash, SumLiq(m, C))
             IN  IF raise /\ Le(nlv, Zero) THEN [st |-> m, out |-> "broke", nlv |-> nlv]
                 ELSE [st |-> m, out |-> "ok", nlv |-> nlv]

NlvOf(st) == ValueF(st, FALSE).nlv      \* requires Valuable(st)

Notional(st, c) == IF IsZero(st.pos[c]) THEN Zero
                   ELSE Mul(Mul(st.pos[c], Liq(st, c)), RM(Mult[c]))

-----------------------------------------------------------------------------
\* trade.py / fees.py / broker.py : transact

Commission(c, exec, dq) == Add(Fixed, Mul(Prop, RAbs(Mul(Mul(exec, dq), RM(Mult[c])))))

\* a Trade can only be built from a two-sided quote and a non-zero quantity
TradeBuildable(st, c, dq) == st.bid[c] # NaN /\ st.ask[c] # NaN /\ ~IsZero(dq)

\* Broker.transact of a Trade that carries its own bid / ask (tb, ta): the prices of the book when the order was priced,
\* which need not be the book's prices when it is executed
TransactAtF(st, c, dq, tb, ta) ==
    IF tb = NaN \/ ta = NaN \/ IsZero(dq) THEN [st |-> st, out |-> "error", comm |-> Zero, exec |-> NaN]
    ELSE
    LET s1     == MarkF(st, c)
        exec   == IF Sign(dq) > 0 THEN ta ELSE tb
        old    == s1.pos[c]
        raw    == Add(old, dq)
        \* Broker._epsilon: a residual position below epsilon is dropped (the margin is still sized on the raw
        \* quantity first and swept by the re-mark below)
        new    == IF Lt(RAbs(raw), Epsilon) THEN Zero ELSE raw
        comm   == Commission(c, exec, dq)
        \* the whole position is re-based to the execution price below; under "carry" the variation
        \* margin of the position held so far is settled from its last mark to the execution price
        carry  == IF RefRule = "carry" /\ ~IsZero(Mr[c]) /\ ~IsZero(old) /\ s1.ref[c] # None
                  THEN Mul(Mul(old, RM(Mult[c])), Sub(exec, s1.ref[c])) ELSE Zero
        mexp   == Mul(Mul(Mul(exec, RAbs(raw)), RM(Mult[c])), Mr[c])
        mdiff  == Sub(mexp, Add(s1.mrg[c], carry))
        cost   == Mul(Mul(Mul(exec, dq), RM(Mult[c])), RM(CashReq[c]))
        s2     == [s1 EXCEPT !.cash   = Sub(Sub(Sub(s1.cash, comm), cost), mdiff),
                             !.mrg[c] = mexp,
                             !.pos[c] = new,
                             !.ref[c] = exec]
    IN  [st |-> MarkF(s2, c), out |-> "ok", comm |-> comm, exec |-> exec]

\* the usual case: the Trade is priced on the current book
TransactF(st, c, dq) == TransactAtF(st, c, dq, st.bid[c], st.ask[c])

-----------------------------------------------------------------------------
\* broker.py : accrued_interest, on a clock counted in whole years of 365 days so that the
\* compounding factor stays rational (Interest.tla treats arbitrary second-level cuts symbolically)

RECURSIVE RPow(_, _)
RPow(a, k) == IF k = 0 THEN One ELSE Mul(a, RPow(a, k - 1))

\* the rate the book shows at time t: the last one published at or before t (0 before the first publication: the rate
\* book is seeded with 0).  The accrual of a period uses the rate read when it is made.
RateAt(t) ==
    IF RatePath = <<>> THEN Rate
    ELSE LET ks == {k \in 1..Len(RatePath) : RatePath[k][1] <= t}
         IN  IF ks = {} THEN Zero ELSE RatePath[CHOOSE k \in ks : \A j \in ks : j <= k][2]

InterestDue(st, t) ==
    LET years == t - st.acc
        cagr  == Sub(RateAt(t), MulI(Markup, Sign(st.cash)))
        amt   == Mul(st.cash, Sub(RPow(Add(One, cagr), years), One))
    IN  IF Sign(st.cash) > 0 /\ Sign(amt) < 0 THEN Zero ELSE amt

\* accrue = TRUE credits / charges the amount; the first call of either kind starts the clock
AccrueF(st, t, accrue) ==
    LET s0 == IF st.acc = NoTime THEN [st EXCEPT !.acc = t] ELSE st
    IN  IF t < s0.acc THEN [st |-> s0, out |-> "error", amount |-> Zero]
        ELSE LET amt == InterestDue(s0, t)
             IN  [st |-> IF accrue THEN [s0 EXCEPT !.cash = Add(s0.cash, amt), !.acc = t] ELSE s0,
                  out |-> "ok", amount |-> amt]

-----------------------------------------------------------------------------
\* allocation.py / rebalancing.py : from a target to a list of trades
\*
\* A request is  [alloc : [SUBSET C -> Rat], measure : {"weight", "lots"}, thr : Rat, fractional : BOOLEAN,
\*                 absolute : BOOLEAN]   (absolute = FALSE: alloc is a change from the current holdings)
\* alloc holds non-zero targets only (the code drops zero entries and the cash contract).

Targeted(req, c) == c \in DOMAIN req.alloc /\ ~IsZero(req.alloc[c])

\* Weights._to_nr_contracts: weight * NLV / acquisition price / multiplier
TargetLots(st, req, nlv, c) ==
    IF ~Targeted(req, c) THEN Zero
    ELSE IF req.measure = "lots" THEN req.alloc[c]
    ELSE LET p == AcqPrice(st, c, Sign(req.alloc[c]))
         IN  IF p = NaN THEN NaN ELSE Div(Div(Mul(req.alloc[c], nlv), p), RM(Mult[c]))

\* MakeTradesF is called on the marked state with its NLV (context_pre has just been taken)
\* result: [out, trades : [SUBSET C -> Rat]]
MakeTradesF(st, req, nlv) ==
    LET tl(c)  == TargetLots(st, req, nlv, c)
        cand   == {c \in C : Targeted(req, c) \/ (req.absolute /\ ~IsZero(st.pos[c]))}
        bad    == {c \in cand : tl(c) = NaN}
        imb(c) == IF req.absolute THEN Sub(tl(c), st.pos[c]) ELSE tl(c)
        imbal  == {c \in cand \ bad : ~IsZero(imb(c))}
        \* imbalance weight: multiplier * quantity * acquisition price / NLV
        wprice(c) == AcqPrice(st, c, Sign(imb(c)))
        qty(c) == IF req.fractional THEN imb(c) ELSE RM(TruncI(imb(c)))
        \* trading whole lots, an imbalance below one lot is skipped before any price of that contract is needed (the code
        \* truncates the quantity first); with SubLot = "raise" (the pinned code) nothing was skipped
        live   == IF SubLot = "skip" THEN {c \in imbal : ~IsZero(qty(c))} ELSE imbal
        noprice == {c \in live : wprice(c) = NaN}
        w(c)   == Div(Mul(Mul(RM(Mult[c]), imb(c)), wprice(c)), nlv)
        keep   == {c \in live \ noprice : ~(Lt(RAbs(w(c)), req.thr) /\ Targeted(req, c))}
        sub    == {c \in keep : IsZero(qty(c))}
        unbuildable == {c \in keep : st.bid[c] = NaN \/ st.ask[c] = NaN}
        \* contracts whose imbalance weight is EXACTLY the threshold (binary floating point may
        \* land on either side unless the model's arithmetic is dyadic; the harness is told)
        edge   == {c \in live \ noprice : Targeted(req, c) /\ RAbs(w(c)) = req.thr /\ ~IsZero(req.thr)}
    IN  IF bad # {} \/ noprice # {} \/ unbuildable # {} THEN [out |-> "error", trades |-> <<>>, edge |-> {}]
        ELSE IF sub # {} /\ SubLot = "raise" THEN [out |-> "error", trades |-> <<>>, edge |-> {}]
        ELSE [out |-> "ok", trades |-> [c \in keep \ sub |-> qty(c)], edge |-> edge]

RECURSIVE TransactAll(_, _, _)
TransactAll(st, trades, cs) ==
    IF cs = {} THEN [st |-> st, comm |-> Zero]
    ELSE LET c == CHOOSE x \in cs : TRUE
             r == TransactF(st, c, trades[c])
             k == TransactAll(r.st, trades, cs \ {c})
         IN  [st |-> k.st, comm |-> Add(r.comm, k.comm)]

\* Broker.rebalance: accrue; snapshot; make trades; transact; snapshot (checkpoint is the caller's)
\* result: [st, out \in {"ok","broke","error"}, pre, post, trades, interest, comm]
RebalanceF(st, req, t) ==
    LET a == AccrueF(st, t, TRUE)
        blank == [pre |-> NaN, post |-> NaN, trades |-> <<>>, comm |-> Zero, edge |-> {}, prest |-> st, postst |-> st]
    IN  IF a.out = "error" THEN [st |-> a.st, out |-> "error", interest |-> Zero] @@ blank
        ELSE
        LET v == ValueF(a.st, TRUE)
        IN  IF v.out # "ok" THEN [st |-> v.st, out |-> v.out, interest |-> a.amount] @@ blank
            ELSE
            LET m == MakeTradesF(v.st, req, v.nlv)
            IN  IF m.out # "ok" THEN [st |-> v.st, out |-> "error", interest |-> a.amount] @@ blank
                ELSE
                LET x == TransactAll(v.st, m.trades, DOMAIN m.trades)
                    p == ValueF(x.st, TRUE)
                \* prest / postst: the account as snapshotted before and after the trades (context_pre / context_post)
                IN  [st |-> p.st, out |-> p.out, interest |-> a.amount, pre |-> v.nlv,
                     post |-> p.nlv, trades |-> m.trades, comm |-> x.comm, edge |-> m.edge,
                     prest |-> v.st, postst |-> p.st]

-----------------------------------------------------------------------------
InitLedger == [bid |-> [c \in C |-> NaN], ask |-> [c \in C |-> NaN], alive |-> [c \in C |-> TRUE],
               pos |-> [c \in C |-> Zero], cash |-> Deposit, mrg |-> [c \in C |-> Zero],
               ref |-> [c \in C |-> None], acc |-> NoTime]
=============================================================================
