#!/bin/sh
# Build step after a fresh restore: nothing to compile. Parse every specification module with SANY and
# check that the implementation and the harness import.
cd "$(dirname "$0")" || exit 2
mkdir -p out/work out/replays evidence
fail=0
for f in spec/*.tla; do
  out=$(cd spec && java -cp /opt/veriftools/tla/tla2tools.jar:/opt/veriftools/tla/CommunityModules-deps.jar tla2sany.SANY "$(basename "$f")" 2>&1)
  if echo "$out" | grep -q -E "Parse Error|Semantic errors|Fatal|Could not"; then echo "SANY failed on $f"; echo "$out" | tail -20; fail=1; fi
done
/venv/bin/python -c "import harness.cli, harness.impl" || fail=1
exit $fail
