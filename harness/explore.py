"""Generic 'TLC explores, the harness replays every dumped state' driver."""
import importlib
import multiprocessing as mp
import os

from . import tlc, tlaval


def chunks(path, size=300):
    buf, cur = [], []
    with open(path) as f:
        for line in f:
            if line.startswith("State "):
                if cur:
                    buf.append("".join(cur))
                    cur = []
                    if len(buf) >= size:
                        yield buf
                        buf = []
            else:
                cur.append(line)
    if cur and "".join(cur).strip():
        buf.append("".join(cur))
    if buf:
        yield buf


_W = {}


def _init(modname, fname, ctx, repo):
    if repo:
        os.environ["VERIF_REPO"] = repo
    _W["fn"] = getattr(importlib.import_module(modname), fname)
    _W["ctx"] = ctx


def _work(texts):
    return _W["fn"](_W["ctx"], texts)


def jsonable(x):
    from fractions import Fraction
    if isinstance(x, dict):
        return {str(k): jsonable(v) for k, v in x.items()}
    if isinstance(x, (list, tuple)):
        return [jsonable(v) for v in x]
    if isinstance(x, (set, frozenset)):
        return sorted((jsonable(v) for v in x), key=str)
    if isinstance(x, Fraction):
        return [x.numerator, x.denominator]
    return x


def explore_and_replay(rep, name, module_text, cfg_text, worker, ctx, clauses, invariants=(), properties=(),
                       workers=8, procs=14, chunk=300, timeout=7200, heap="8g", module_name="MC"):
    """worker = (module, function): function(ctx, [state text]) ->
         {"n": replayed cases, "ops": executed calls, "fails": [{clause, key, detail, case}], "classes": {..}, "sample": x}
    """
    res = tlc.run(module_name, module_text, cfg_text, workers=workers, dump=True, tag=rep.prop + "-" + name,
                  timeout=timeout, heap=heap)
    try:
        rep.add_model(name, res, invariants, properties)
        if res.violated:
            tr = tlaval.parse_trace(res.trace or "")
            last = tr[-1][1] if tr else {}
            rep.violation("model:" + res.violated, "model/%s/%s" % (name, res.violated),
                          "TLC: %s %s is violated by the specification model %s" % (
                              res.violation_kind, res.violated, name),
                          {"model": name, "last_state": jsonable({k: v for k, v in last.items() if k in ("cfg", "hist", "last")}),
                           "tlc": (res.trace or "")[:3000]})
            return res
        c = mp.get_context("fork")
        with c.Pool(procs, initializer=_init, initargs=(worker[0], worker[1], ctx, os.environ.get("VERIF_REPO"))) as pool:
            for out in pool.imap_unordered(_work, chunks(res.dump_path, chunk)):
                rep.traces += out["n"]
                rep.evaluations += out["ops"]
                for k, v in out.get("classes", {}).items():
                    rep.count(name + ":" + k, v)
                if out.get("sample") is not None:
                    rep.sample({"model": name, "case": jsonable(out["sample"])})
                for f in out["fails"]:
                    if f["clause"] in clauses:
                        rep.violation(f["clause"], f["key"], f["detail"], jsonable(f["case"]))
                    else:
                        if len(rep.drift) < 200:
                            rep.drift.append({"clause": f["clause"], "key": f["key"], "detail": f["detail"]})
        return res
    finally:
        tlc.rm_workdir(res.workdir)


def last_states(dirpath):
    """last state of every behaviour file written by `tlc -simulate file=...`"""
    import re
    out = []
    for f in sorted(os.listdir(dirpath)):
        with open(os.path.join(dirpath, f)) as fh:
            t = fh.read()
        i = t.rfind("\nSTATE_")
        if i < 0:
            continue
        j = t.find("==", i)
        body = t[j + 2:]
        k = body.find("\n====")
        out.append(body[:k] if k >= 0 else body)
    return out


def simulate_and_replay(rep, name, module_text, cfg_text, worker, ctx, clauses, num, depth, seed, invariants=(), properties=(),
                        workers=8, procs=14, chunk=100, timeout=3600, module_name="MC"):
    """random behaviours of the same specification (TLC simulation mode; invariants are checked along the way); the
    final state of each behaviour carries its whole operation history, which is replayed into the implementation"""
    wd = tlc.new_workdir(rep.prop + "-sim-" + name)
    trdir = os.path.join(wd, "tr")
    os.makedirs(trdir)
    per = max(1, num // workers)
    try:
        res = tlc.run(module_name, module_text, cfg_text, workers=workers, simulate="file=%s/t,num=%d" % (trdir, per), depth=depth + 1,
                      seed=seed, tag=rep.prop + "-simrun-" + name, timeout=timeout)
        try:
            m = {"model": name + " (simulation)", "states_generated": res.generated, "distinct": 0, "depth": depth,
                 "wall_s": round(res.wall, 2), "invariants": list(invariants), "action_properties": list(properties)}
            import re
            g = re.search(r"The number of states generated: (\d+)", res.stdout)
            if g:
                m["states_generated"] = int(g.group(1))
                rep.transitions += int(g.group(1))
            rep.models.append(m)
            if res.violated:
                rep.violation("model:" + res.violated, "model/%s/%s" % (name, res.violated),
                              "TLC (simulation): %s %s is violated by the specification model %s" % (res.violation_kind, res.violated, name),
                              {"model": name, "tlc": (res.trace or "")[:3000]})
                return
            states = last_states(trdir)
            c = mp.get_context("fork")
            parts = [states[i:i + chunk] for i in range(0, len(states), chunk)]
            with c.Pool(procs, initializer=_init, initargs=(worker[0], worker[1], ctx, os.environ.get("VERIF_REPO"))) as pool:
                for out in pool.imap_unordered(_work, parts):
                    rep.traces += out["n"]
                    rep.evaluations += out["ops"]
                    rep.count(name + ":simulated_behaviours", out["n"])
                    for f in out["fails"]:
                        if f["clause"] in clauses:
                            rep.violation(f["clause"], f["key"], f["detail"], jsonable(f["case"]))
                        elif len(rep.drift) < 200:
                            rep.drift.append({"clause": f["clause"], "key": f["key"], "detail": f["detail"]})
        finally:
            tlc.rm_workdir(res.workdir)
    finally:
        tlc.rm_workdir(wd)
