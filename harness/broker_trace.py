"""Code -> spec for the broker: random executions of the real Broker on the rational grid are recorded (operation,
arguments, observed positions / margins / NLV) and validated line by line by TLC against BrokerTrace.tla."""
import copy
import json
import os
import random
from fractions import Fraction as F

from . import tlc, tlagen, tlaval
from .broker_check import CONTRACTS, FEES


def rat(x):
    """observed float -> [num, den] on the rational grid, [0, 0] when it is not (within 1e-9) a small rational"""
    try:
        x = float(x)
    except Exception:  # noqa: BLE001
        return [0, 0]
    if x != x or x in (float("inf"), float("-inf")):
        return [0, 0]
    f = F(x).limit_denominator(200000)
    if abs(float(f) - x) > 1e-9 * max(1.0, abs(x)) or abs(f.numerator) > 2000000000:
        return [0, 0]
    return [f.numerator, f.denominator]


def record(py_model, n, length, seed):
    from . import replay_broker, impl
    rnd = random.Random(seed)
    names = sorted(py_model["contracts"])
    traces = []
    for _ in range(n):
        w = replay_broker.World(py_model)
        ops = []
        clk = 0
        held = set()
        for _ in range(length):
            r = rnd.random()
            c = rnd.choice(names)
            if r < 0.3:
                b = rnd.choice([8, 10, 12])
                op = {"op": "quote", "c": c, "x": (b, 1), "y": (b + rnd.choice([0, 2]), 1)}
            elif r < 0.34:
                # a quote that loses one side (NaN), or a discontinuation (rare)
                b = rnd.choice([8, 12])
                side = rnd.choice(["bid", "ask", "disc"])
                op = {"op": "disc", "c": c} if (side == "disc" and rnd.random() < 0.3) else \
                    {"op": "quote", "c": c, "x": (0, 0) if side == "bid" else (b, 1), "y": (0, 0) if side != "bid" else (b, 1)}
            elif r < 0.55:
                op = {"op": "trade", "c": c, "x": (rnd.choice([-3, -2, -1, 1, 2, 3]), 1), "y": "-"}
            elif r < 0.65:
                # an order priced on another book than the current one
                b = rnd.choice([8, 10, 12])
                op = {"op": "tradeat", "c": c, "x": (rnd.choice([-2, -1, 1, 2]), 1), "tb": (b, 1), "ta": (b + rnd.choice([0, 2]), 1)}
            elif r < 0.75:
                op = {"op": "mark", "c": c}
            elif r < 0.8:
                op = {"op": "markall", "c": "-"}
            elif r < 0.88:
                op = {"op": "value", "c": "-", "x": rnd.random() < 0.5}
            elif r < 0.92:
                op = {"op": "context", "c": "-"}
            else:
                clk += 1
                k = rnd.sample(names, rnd.randint(0, len(names)))
                op = {"op": "rebalance", "c": "-", "y": clk,
                      "x": {"alloc": {x: (rnd.choice([-2, -1, 1, 2, 3]), 1) for x in k}, "measure": "lots", "thr": (0, 1),
                            "fractional": True}}
            out, val = w.apply(op)
            pos, mrg = w.pos(), w.mrg()
            o2, v2 = w.nlv_copy()
            line = {"op": op["op"], "c": op.get("c", "-"), "out": out,
                    "pos": {k: rat(v) for k, v in pos.items()}, "mrg": {k: rat(v) for k, v in mrg.items()},
                    "nlv": rat(v2) if o2 == "ok" else [0, 0], "chk": [], "trades": {}}
            if op["op"] == "quote":
                line["x"], line["y"] = list(op["x"]), list(op["y"])
            elif op["op"] == "trade":
                line["x"] = list(op["x"])
                if out == "ok":
                    line["chk"] = [op["c"]]
            elif op["op"] == "tradeat":
                line["x"], line["tb"], line["ta"] = list(op["x"]), list(op["tb"]), list(op["ta"])
                if out == "ok" and w.liq_price(op["c"]) == w.liq_price(op["c"]):
                    line["chk"] = [op["c"]]
            elif op["op"] == "context":
                if out in ("ok", "broke"):
                    line["chk"] = names
            elif op["op"] == "value":
                line["flag"] = bool(op["x"])
                if out in ("ok", "broke"):
                    line["chk"] = names
            elif op["op"] == "markall":
                if o2 == "ok":
                    line["chk"] = names
            elif op["op"] == "rebalance":
                line["alloc"] = {k: list(v) for k, v in op["x"]["alloc"].items()}
                line["measure"], line["thr"], line["fractional"], line["t"] = "lots", [0, 1], True, clk
                if out == "ok":
                    line["chk"] = names
                    tr = {}
                    for t in val.trades:
                        tr[t.contract.symbol] = tr.get(t.contract.symbol, 0.0) + t.quantity
                    line["trades"] = {k: rat(v) for k, v in tr.items()}
            ops.append(line)
            if out != "ok" and op["op"] == "rebalance":
                clk += 0
        traces.append({"ops": ops})
    return traces


def validate(rep, name, contracts, fees, clauses, n, length, seed):
    """record n traces on the real Broker and let TLC validate them; violations of `clauses` are reported"""
    from .broker_check import model
    m = model(name, contracts, ["quote"], 1, fees=fees)
    traces = record(m["py"], n, length, seed)
    wd = tlc.new_workdir(rep.prop + "-btrace")
    path = os.path.join(wd, "traces.json")
    with open(path, "w") as f:
        json.dump(traces, f)
    expected = sum(len(t["ops"]) + 1 for t in traces)
    cs = {c: CONTRACTS[c] for c in contracts}
    fixed, prop = FEES[fees]
    defs = {"C": set(contracts), "Mult": {c: cs[c]["mult"] for c in contracts}, "CashReq": {c: cs[c]["cashreq"] for c in contracts},
            "Mr": {c: cs[c]["mr"] for c in contracts}, "Fixed": fixed, "Prop": prop, "Deposit": F(1000), "Rate": F(0),
            "Markup": F(0), "RatePath": [], "Epsilon": F(0), "Clauses": set(clauses)}
    module = tlagen.mc_module("MCT", "BrokerTrace", defs)
    cfg = tlagen.cfg(defs, {"RefRule": "carry", "SpotMult": "applied", "SubLot": "skip", "ExpectedStates": expected},
                     invariants=["Accepted"], postcondition="AllConsumed")
    try:
        res = tlc.run("MCT", module, cfg, workers=1, env={"TRACE_FILE": path}, tag=rep.prop + "-btracev", timeout=1800)
    finally:
        tlc.rm_workdir(wd)
    try:
        rep.add_model(name + " (recorded traces)", res, ["Accepted"], [])
        if res.violated:
            tr = tlaval.parse_trace(res.trace or "")
            lastst = tr[-1][1] if tr else {}
            tid, l = lastst.get("tid"), lastst.get("l")
            verdict = list(lastst.get("verdict") or [])
            ops = traces[tid - 1]["ops"][: (l or 1) - 1] if tid else []
            clause = {"nlv": "nlv", "mrg": "mrg", "pos": "pos", "out": "trade_out", "trades": "trades"}.get(verdict[0] if verdict else "", "nlv")
            rep.violation(clause, "trace/%s/%s" % ("/".join(verdict), ops[-1]["op"] if ops else "?"),
                          "recorded execution of the real Broker rejected by BrokerTrace.tla: trace %s line %s, clause(s) %s; "
                          "logged %s" % (tid, (l or 1) - 1, verdict, {k: ops[-1].get(k) for k in ("op", "c", "out", "nlv", "pos", "mrg")} if ops else None),
                          {"kind": "broker-trace", "ops": ops})
        else:
            if "AllConsumed" in res.stdout and "violated" in res.stdout.lower() and "postcondition" in res.stdout.lower():
                raise tlc.TLCFailure("trace batch not fully consumed")
            rep.traces += len(traces)
            rep.evaluations += expected - len(traces)
            rep.count("recorded_traces_accepted", len(traces))
            rep.sample({"recorded_trace": [{k: v for k, v in o.items() if k in ("op", "c", "x", "out", "nlv")} for o in traces[0]["ops"][:6]]})
    finally:
        tlc.rm_workdir(res.workdir)
