"""C16 on Metrics.tla: every level series in bounds, exact rational definitions vs the pandas methods."""
import math
from datetime import datetime, timedelta
from fractions import Fraction as F

import numpy as np

from . import tlagen, tlaval, core, explore

BASE = datetime(2019, 1, 1)
CLAUSE_PROPS = {c: ["C16"] for c in ("timezone", "level", "returns", "days", "cagr", "volatility", "drawdown", "max_drawdown", "var",
                                      "expected_shortfall", "downside", "upside", "martin", "tracking", "ratio", "scale",
                                      "reject", "raise", "frame", "tearsheet")}
TOL = 1e-9


def fr(r):
    if r is None or tuple(r) == (0, 0):
        return None
    return F(r[0], r[1])


def eq(code, exact, tol=TOL):
    if exact is None:
        return code is None or (isinstance(code, float) and math.isnan(code)) or (hasattr(code, "dtype") and np.isnan(code))
    try:
        c = float(code)
    except Exception:  # noqa: BLE001
        return False
    if math.isnan(c):
        return False
    e = float(exact)
    return abs(c - e) <= tol * max(1.0, abs(e))


def patterns(tier):
    ps = [
        [(0, 0), (1, 0), (73, 0)], [(0, 0), (36, 0), (73, 0)], [(0, 0), (1, 0), (2, 0), (73, 0)],
        [(0, 0), (0, 3600), (1, 0), (73, 0)],                 # two observations on the first day
        [(0, 36000), (5, 0), (5, 7200), (365, 36000)],        # intraday in the middle, one-year span
        [(0, 0), (365, 0)], [(0, 43200), (73, 0), (146, 0)],  # last stamp earlier in the day than the first
        [(0, 0), (1, 25200), (1, 36000), (73, 0)],            # 07:00 and 10:00 of one day (either side of midnight UTC at +09:00)
        [(0, 0), (1, 3600), (1, 72000), (73, 0)],             # 01:00 and 20:00 of one day (either side of midnight UTC at -05:00)
    ]
    if tier != "quick":
        ps += [[(0, 0), (1, 0), (2, 0), (3, 0), (73, 0)], [(0, 0), (0, 60), (0, 120), (2, 0), (365, 0)],
               [(0, 0), (10, 0), (10, 1), (20, 0), (20, 1)], [(0, 0), (1, 0), (4, 0), (5, 0), (365, 0)]]
    return ps


def series_of(s, scale=1.0, bench=False):
    import pandas as pd
    idx = [BASE + timedelta(days=o["day"], seconds=o["sec"]) for o in s]
    if bench:
        vals = [float(((2 * (i + 1)) % 3) + 1) for i in range(len(s))]
    else:
        vals = [float(o["v"]) * scale for o in s]
    return pd.Series(vals, index=pd.DatetimeIndex(idx), name="L")


def check_series(s, m):
    from . import impl
    import tradingenv.metrics  # noqa: F401  (installs the methods on pandas objects)
    import pandas as pd
    fails = []
    x = series_of(s)

    def call(name, *a, obj=None):
        return impl.classify(lambda: getattr(obj if obj is not None else x, name)(*a))

    def cmpseq(name, clause, exact):
        o, v = call(name)
        if o != "ok":
            fails.append((clause, "%s() raised %r on a valid level series" % (name, v)))
            return
        vv = [float(a) for a in np.asarray(v).ravel()]
        if len(vv) != len(exact) or any(not eq(a, fr(b)) for a, b in zip(vv, exact)):
            fails.append((clause, "%s() = %s, definition gives %s" % (name, vv, [str(fr(b)) for b in exact])))

    def cmpnum(name, clause, exact, transform=None, args=()):
        o, v = call(name, *args)
        if o != "ok":
            fails.append((clause, "%s() raised %r on a valid level series" % (name, v)))
            return None
        vv = float(v)
        t = transform(vv) if (transform and not math.isnan(vv)) else vv
        if not eq(t, exact):
            fails.append((clause, "%s() = %r (compared as %r), definition gives %s" % (name, vv, t, exact)))
        return vv

    daily = [o for o in s if not any(q["day"] == o["day"] and q["sec"] > o["sec"] for q in s)]
    o, lv = call("level")
    if o != "ok" or [float(a) for a in np.asarray(lv).ravel()] != [float(q["v"]) for q in daily]:
        fails.append(("level", "level() = %r, last observation per calendar day is %s" % (lv if o != "ok" else list(np.asarray(lv).ravel()), [q["v"] for q in daily])))
    cmpseq("simple_returns", "returns", m["returns"])
    cmpnum("nr_calendar_days", "days", F(m["days"]))
    ratio = fr(m["ratio"])
    days = m["days"]
    cagr = None
    if days > 0:
        o, v = call("cagr")
        if o != "ok":
            fails.append(("cagr", "cagr() raised %r" % (v,)))
        else:
            cagr = float(v)
            # (1 + CAGR)^years = last / first, checked in the forward direction with 50-digit decimals (taking the
            # power back in floats is ill-conditioned when 1 + CAGR is tiny)
            from decimal import Decimal, getcontext
            getcontext().prec = 50
            exact = (Decimal(ratio.numerator) / Decimal(ratio.denominator)) ** (Decimal(365) / Decimal(days)) - 1
            if abs(Decimal(repr(cagr)) - exact) > Decimal("1e-9") * max(Decimal(1), abs(exact)):
                fails.append(("cagr", "cagr() = %r, (last/first)^(365/days) - 1 = %s (last/first = %s over %d days)" % (cagr, exact, ratio, days)))
    vol = cmpnum("volatility", "volatility", fr(m["variance"]), lambda a: a * a / 252.0)
    cmpseq("drawdown", "drawdown", m["drawdown"])
    mdd = cmpnum("max_drawdown", "max_drawdown", fr(m["maxdd"]))
    cmpnum("value_at_risk", "var", fr(m["var025"]))
    cmpnum("expected_shortfall", "expected_shortfall", fr(m["es025"]))
    dvol = cmpnum("downside_volatility", "downside", fr(m["downvar"]), lambda a: a * a / 252.0)
    cmpnum("upside_volatility", "upside", fr(m["upvar"]), lambda a: a * a / 252.0)
    mart = cmpnum("martin_risk", "martin", fr(m["ulcer2"]), lambda a: a * a)
    bench = series_of(s, bench=True)
    o, te = impl.classify(lambda: x.tracking_error(bench))
    if o != "ok":
        fails.append(("tracking", "tracking_error raised %r" % (te,)))
    elif not eq(float(te) ** 2 / 252.0 if not math.isnan(float(te)) else float("nan"), fr(m["trackvar"])):
        fails.append(("tracking", "tracking_error^2/252 = %r, definition gives %s" % (float(te) ** 2 / 252.0, fr(m["trackvar"]))))
    # risk-adjusted ratios, composed from the pieces above
    if cagr is not None and not fails:
        rf = 0.01
        for name, denom in (("sharpe_ratio", vol), ("sortino_ratio", dvol), ("calmar_ratio", None if mdd is None else -mdd),
                            ("martin_ratio", mart)):
            for r in (0.0, rf):
                o, v = call(name, r)
                if o != "ok":
                    fails.append(("ratio", "%s(%s) raised %r" % (name, r, v)))
                    continue
                if denom is None or math.isnan(denom):
                    exp = float("nan")
                elif denom == 0:
                    exp = None          # division by zero: inf / nan by IEEE, not compared
                else:
                    exp = (cagr - r) / denom
                if exp is not None and not (math.isnan(exp) and math.isnan(float(v))) and \
                        not (abs(float(v) - exp) <= 1e-9 * max(1.0, abs(exp))):
                    fails.append(("ratio", "%s(%s) = %r, (cagr - rate) / risk = %r" % (name, r, float(v), exp)))
    # scale invariance on the implementation
    if not fails:
        for k in (2.0, 0.37):
            y = series_of(s, scale=k)
            for name in ("cagr", "volatility", "max_drawdown", "value_at_risk", "expected_shortfall", "downside_volatility",
                         "upside_volatility", "martin_risk", "sharpe_ratio", "sortino_ratio", "calmar_ratio", "martin_ratio"):
                o1, a = call(name)
                o2, b = call(name, obj=y)
                if o1 != o2 or (o1 == "ok" and not ((math.isnan(float(a)) and math.isnan(float(b))) or
                                                    abs(float(a) - float(b)) <= 1e-9 * max(1.0, abs(float(a))) or
                                                    (math.isinf(float(a)) and float(a) == float(b)))):
                    fails.append(("scale", "%s changes when levels are multiplied by %s: %r -> %r" % (name, k, a, b)))
    # the same observations stamped in a time zone: calendar days are the days of the index, metrics do not change
    if not fails:
        from datetime import timezone
        names = ("cagr", "volatility", "max_drawdown", "value_at_risk", "expected_shortfall", "downside_volatility",
                 "upside_volatility", "martin_risk", "sharpe_ratio", "sortino_ratio", "calmar_ratio", "martin_ratio",
                 "nr_calendar_days")
        for hours in (9, -5):
            z = pd.Series(x.values, index=x.index.tz_localize(timezone(timedelta(hours=hours))), name="L")
            o, lz = impl.classify(lambda: z.level())
            if o != "ok" or [float(a) for a in np.asarray(lz).ravel()] != [float(q["v"]) for q in daily]:
                fails.append(("level", "level() of the series stamped at UTC%+d = %r, last observation per calendar day is %s" % (
                    hours, lz if o != "ok" else list(np.asarray(lz).ravel()), [q["v"] for q in daily])))
                break
            for name in names:
                o1, a = call(name)
                o2, b = call(name, obj=z)
                if o1 != o2 or (o1 == "ok" and not ((math.isnan(float(a)) and math.isnan(float(b))) or
                                                    abs(float(a) - float(b)) <= 1e-9 * max(1.0, abs(float(a))) or
                                                    (math.isinf(float(a)) and float(a) == float(b)))):
                    fails.append(("timezone", "%s = %r on the naive index and %r when the same stamps carry the offset UTC%+d" % (
                        name, a, b, hours)))
                    break
    # single-defect corruptions are rejected
    if not fails:
        idx = list(x.index)
        bads = {
            "nan": pd.Series([float("nan")] + list(x.values[1:]), index=x.index),
            "zero": pd.Series([0.0] + list(x.values[1:]), index=x.index),
            "negative": pd.Series(list(x.values[:-1]) + [-1.0], index=x.index),
            "duplicate": pd.Series(list(x.values), index=pd.DatetimeIndex([idx[0]] + idx[:-1]) if len(idx) > 1 else x.index),
            "unsorted": pd.Series(list(x.values), index=pd.DatetimeIndex(idx[::-1])),
            "not_datetime": pd.Series(list(x.values), index=list(range(len(idx)))),
        }
        for dname, b in bads.items():
            for meth in ("level", "simple_returns", "cagr", "volatility", "max_drawdown"):
                o, v = impl.classify(lambda: getattr(b, meth)())
                if o == "ok":
                    fails.append(("reject", "a series with defect '%s' was measured by %s() instead of being rejected" % (dname, meth)))
                    break
    # corruptions DERIVED from the series that has just been measured (copies, slices, arithmetic keep pandas' attrs)
    if not fails:
        def _nan(z):
            z = z.copy()
            z.iloc[-1] = float("nan")
            return z
        derived = {"copy+nan": lambda: _nan(x), "minus": lambda: x - 10.0, "reversed": lambda: x.iloc[::-1],
                   "concat-dup": lambda: pd.concat([x, x.iloc[:1]]), "reset_index": lambda: x.reset_index(drop=True),
                   "times-zero": lambda: x * 0.0}
        x.level()
        x.cagr()
        for dname, mk in derived.items():
            y = mk()
            for meth in ("level", "simple_returns", "max_drawdown"):
                o, v = impl.classify(lambda: getattr(y, meth)())
                if o == "ok":
                    fails.append(("reject", "a series derived from a measured one with defect '%s' was measured by %s() instead of "
                                  "being rejected" % (dname, meth)))
                    break
    # the tearsheet reports the same numbers as the metric methods, also when another series with the same end points and
    # length (other interior dates) has been reported on first in the same process
    if not fails:
        idx = list(x.index)
        sib_idx = [idx[0]] + [t + timedelta(hours=1) for t in idx[1:-1]] + [idx[-1]]
        if len(idx) >= 3 and all(a < b for a, b in zip(sib_idx, sib_idx[1:])):
            sib = pd.Series([float(((3 * i) % 2) + 1) for i in range(len(idx))], index=pd.DatetimeIndex(sib_idx), name="L")
            impl.classify(lambda: sib.tearsheet())
        o, ts = impl.classify(lambda: x.tearsheet())
        if o != "ok":
            fails.append(("tearsheet", "tearsheet() raised %r on a valid level series" % (ts,)))
        else:
            col = ts.iloc[:, 0]
            rows = [(("Context", "Observations"), "nr_observations", ()), (("Return", "CAGR"), "cagr", ()),
                    (("Risk", "Volatility"), "volatility", ()), (("Risk", "Downside volatility"), "downside_volatility", ()),
                    (("Risk", "Upside volatility"), "upside_volatility", ()), (("Risk", "Max drawdown"), "max_drawdown", ()),
                    (("Risk", "Martin risk"), "martin_risk", ()), (("Risk", "VaR 5%"), "value_at_risk", (0.05,)),
                    (("Risk", "Expected shortfall 5%"), "expected_shortfall", (0.05,)),
                    (("Risk-adjusted return", "Sharpe ratio"), "sharpe_ratio", ()),
                    (("Risk-adjusted return", "Sortino ratio"), "sortino_ratio", ()),
                    (("Risk-adjusted return", "Calmar ratio"), "calmar_ratio", ()),
                    (("Risk-adjusted return", "Martin ratio"), "martin_ratio", ())]
            for key, name, args in rows:
                o2, b = call(name, *args)
                try:
                    a = float(np.asarray(col[key]).ravel()[0])
                    b = float(np.asarray(b).ravel()[0]) if o2 == "ok" else float("nan")
                except Exception as exc:  # noqa: BLE001
                    fails.append(("tearsheet", "tearsheet row %s unreadable: %r" % (key, exc)))
                    break
                if not ((math.isnan(a) and math.isnan(b)) or a == b or abs(a - b) <= 1e-9 * max(1.0, abs(b))):
                    fails.append(("tearsheet", "tearsheet reports %s = %r, %s() on the same series gives %r" % (key[1], a, name, b)))
                    break
    # a risk-free LEVEL series with a longer history than the analysed window (it doubled the year before, it creeps inside the
    # window): the report is about the window, so it equals the report obtained with the risk-free series cut to the window
    if not fails and len(x.index) >= 3:
        idx = list(x.index)
        inside = [2.0 * (1.0 + 0.001 * k) for k in range(len(idx))]
        rf_cut = pd.Series(inside, index=pd.DatetimeIndex(idx), name="RF")
        rf_long = pd.Series([1.0, 1.5] + inside, index=pd.DatetimeIndex([idx[0] - timedelta(days=365), idx[0] - timedelta(days=100)] + idx), name="RF")
        o1, t1 = impl.classify(lambda: x.tearsheet(risk_free=rf_cut))
        o2, t2 = impl.classify(lambda: x.tearsheet(risk_free=rf_long))
        if o1 == "ok" and o2 != "ok":
            fails.append(("tearsheet", "tearsheet(risk_free=<series with a longer history>) raised %r" % (t2,)))
        elif o1 == "ok":
            for key in t1.index:
                try:
                    a, b2 = t1.iloc[:, 0][key], t2.iloc[:, 0][key]
                    fa, fb = float(np.asarray(a).ravel()[0]), float(np.asarray(b2).ravel()[0])
                except Exception:  # noqa: BLE001 - a non-numeric row (names)
                    continue
                if not ((math.isnan(fa) and math.isnan(fb)) or fa == fb or abs(fa - fb) <= 1e-9 * max(1.0, abs(fa))):
                    fails.append(("tearsheet", "tearsheet row %s = %r with the risk-free series cut to the analysed window, %r when the same "
                                  "series also carries earlier history" % (key, fa, fb)))
                    break
    # DataFrame with two columns: every metric column by column
    if not fails:
        df = pd.DataFrame({"L": x, "B": bench})
        for name in ("cagr", "volatility", "max_drawdown", "value_at_risk", "expected_shortfall", "downside_volatility",
                     "upside_volatility", "martin_risk", "sharpe_ratio", "sortino_ratio", "calmar_ratio", "martin_ratio"):
            o, v = impl.classify(lambda: getattr(df, name)())
            if o != "ok":
                fails.append(("frame", "DataFrame.%s() raised %r" % (name, v)))
                continue
            for col, ser in (("L", x), ("B", bench)):
                o2, sv = impl.classify(lambda: getattr(ser, name)())
                try:
                    a, b = float(v[col]), float(sv)
                except Exception:  # noqa: BLE001
                    fails.append(("frame", "DataFrame.%s() does not report one value per column: %r" % (name, v)))
                    break
                if not ((math.isnan(a) and math.isnan(b)) or a == b or abs(a - b) <= 1e-9 * max(1.0, abs(b))):
                    fails.append(("frame", "DataFrame.%s()[%s] = %r, the same column as a Series gives %r" % (name, col, a, b)))
                    break
    return fails


def replay_chunk(ctx, texts):
    out = {"n": 0, "ops": 0, "fails": [], "classes": {}, "sample": None}
    for text in texts:
        st = tlaval.parse_state(text)
        s, m = list(st["s"]), st["m"]
        fails = check_series(s, m)
        out["n"] += 1
        out["ops"] += 30
        k = "n%d/%s" % (len(s), "intraday" if m["ndaily"] < len(s) else "daily")
        out["classes"][k] = out["classes"].get(k, 0) + 1
        if out["sample"] is None and len(s) >= 3:
            out["sample"] = {"series": [(o["day"], o["sec"], o["v"]) for o in s], "returns": [str(fr(r)) for r in m["returns"]],
                             "variance": str(fr(m["variance"])), "maxdd": str(fr(m["maxdd"]))}
        for clause, detail in fails[:3]:
            if len(out["fails"]) < 30:
                out["fails"].append({"clause": clause, "key": "%s/%s" % (clause, k.split("/")[1]), "detail": detail,
                                     "case": {"kind": "metrics", "series": [(o["day"], o["sec"], o["v"]) for o in s]}})
    return out


def c16(tier, seed):
    rep = core.Report("C16", tier, seed)
    rep.assumptions = [
        "bounded domain: every series over the index patterns listed in the harness (2..4 observations, 2..5 thorough; daily, "
        "with gaps, several observations per day; spans of 73, 146 and 365 days) with integer levels 1..3 (1..4 thorough)",
        "irrational metrics are compared through their rational core: volatility^2/252 with the sample variance, "
        "(1+CAGR)^years with last/first, ulcer index^2 with the mean squared drawdown; ratios are composed from the pieces",
        "omega ratio, CAPM alpha/beta (regressions) and series longer than 5 observations are not covered",
    ]
    pats = patterns(tier)
    defs = {"Patterns": tlagen.Raw("{" + ", ".join(tlagen.tla([tuple(a) for a in p]) for p in pats) + "}"),
            "Levels": {1, 2, 3} if tier == "quick" else {1, 2, 3, 4}, "Scales": {2, 3}}
    inv = ["ScaleInvariant", "DrawdownRange", "ReturnsCompound", "TailBelowVar"]
    module = tlagen.mc_module("MC", "Metrics", defs)
    cfg = tlagen.cfg(defs, {}, invariants=inv)
    explore.explore_and_replay(rep, "metrics", module, cfg, ("harness.metrics_check", "replay_chunk"), {}, set(CLAUSE_PROPS),
                               inv, [], chunk=40)
    return rep.finish()
