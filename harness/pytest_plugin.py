"""pytest plugin (harness code, nothing in /repo): records what goes through TradingEnv.notify / reset / step and
Broker.rebalance while the repository's own tests run, one trace per environment, and writes them to
$TRADINGENV_VERIF_TRACE at the end of the session.  Enabled only when that variable (and the guard TRADINGENV_VERIF=1) is set:
    TRADINGENV_VERIF=1 TRADINGENV_VERIF_TRACE=out.json python -m pytest -p harness.pytest_plugin tests/regression
The wrappers only observe; any error inside them disables tracing of that environment instead of disturbing the test."""
import json
import os
from datetime import datetime

BASE = datetime(1990, 1, 1)
_TRACES = []
_ACTIVE = {}      # id(env) -> state
KINDS = {"EventNBBO": "q", "EventContractDiscontinued": "d", "EventReset": "reset", "EventStep": "step", "EventDone": "done",
         "EventNewDate": "newdate"}


def _secs(t):
    if t is None:
        return -1
    if hasattr(t, "to_pydatetime"):
        t = t.to_pydatetime()
    if getattr(t, "tzinfo", None) is not None:
        t = t.replace(tzinfo=None)
    return int((t - BASE).total_seconds())


def _install():
    from tradingenv.env import TradingEnv
    from tradingenv.broker.broker import Broker, EndOfEpisodeError
    if getattr(TradingEnv, "_verif_wrapped", False):
        return
    TradingEnv._verif_wrapped = True
    o_reset, o_step, o_notify, o_reb = TradingEnv.reset, TradingEnv.step, TradingEnv.notify, Broker.rebalance

    def state(env):
        return _ACTIVE.get(id(env))

    def reset(self, *a, **k):
        st = None
        try:
            if not getattr(self, "_real_time", True):
                st = {"calls": [], "cur": None, "ok": True, "mkt": -1, "test": os.environ.get("PYTEST_CURRENT_TEST", "")}
                _ACTIVE[id(self)] = st
                _TRACES.append(st)
                st["cur"] = {"call": "reset", "log": [], "exec": []}
        except Exception:  # noqa: BLE001
            st = None
        try:
            r = o_reset(self, *a, **k)
            out = "ok"
            return r
        except BaseException:
            out = "error"
            raise
        finally:
            _close(self, st, out)

    def step(self, *a, **k):
        st = state(self)
        if st is not None and st["ok"]:
            st["cur"] = {"call": "step", "log": [], "exec": []}
        out = "error"
        try:
            r = o_step(self, *a, **k)
            out = "ok"
            return r
        except EndOfEpisodeError:
            out = "ended"
            raise
        finally:
            _close(self, st, out)

    def _close(env, st, out):
        try:
            if st is None or not st["ok"] or st["cur"] is None:
                return
            cur = st["cur"]
            cur["out"] = out
            cur["done"] = bool(env._done)
            cur["now"] = _secs(env._now)
            st["calls"].append(cur)
            st["cur"] = None
        except Exception:  # noqa: BLE001
            if st is not None:
                st["ok"] = False

    def notify(self, event):
        o_notify(self, event)
        st = state(self)
        try:
            if st is not None and st["ok"] and st["cur"] is not None:
                name = type(event).__name__
                kind = KINDS.get(name, "x")
                st["cur"]["log"].append({"kind": kind, "t": _secs(event.time), "clk": _secs(self._now), "m": st.get("mkt", -1)})
                if kind in ("q", "x", "d"):
                    st["mkt"] = _secs(event.time)
        except Exception:  # noqa: BLE001
            st["ok"] = False

    def rebalance(self, rebalancing):
        try:
            for st in _ACTIVE.values():
                if st["ok"] and st["cur"] is not None and st.get("broker") is None:
                    pass
            env_state = None
            for eid, st in _ACTIVE.items():
                if st["cur"] is not None and st["cur"]["call"] == "step" and st.get("broker_id") in (None, id(self)):
                    env_state = st
            if env_state is not None and env_state["ok"]:
                env_state["cur"]["exec"].append({"pos": len(env_state["cur"]["log"]), "stamp": _secs(rebalancing.time)})
        except Exception:  # noqa: BLE001
            pass
        return o_reb(self, rebalancing)

    TradingEnv.reset, TradingEnv.step, TradingEnv.notify, Broker.rebalance = reset, step, notify, rebalance


def pytest_configure(config):
    if os.environ.get("TRADINGENV_VERIF") == "1" and os.environ.get("TRADINGENV_VERIF_TRACE"):
        _install()


def pytest_sessionfinish(session, exitstatus):
    path = os.environ.get("TRADINGENV_VERIF_TRACE")
    if not path or os.environ.get("TRADINGENV_VERIF") != "1":
        return
    out = []
    for st in _TRACES:
        if st["ok"] and st["calls"]:
            out.append({"test": st["test"], "calls": st["calls"]})
    with open(path, "w") as f:
        json.dump(out, f)
