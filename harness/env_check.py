"""Checks decided on Env.tla: C04 C08 C15 C17 (and the stamp clause of C07)."""
from . import tlagen, tlaval, core, explore
from .tlagen import Rec

DAY = 86400
G = [36000 + DAY * k for k in range(6)]         # 10:00 on six consecutive days
L = 30


def cand(t, kind, c="-", bid=0, ask=0):
    return Rec(t=t, kind=kind, c=c, bid=bid, ask=ask)


# Candidate events around grid points and latency bounds.  The list order is the insertion order
# into the Transmitter and is deliberately not the time order.
def candidates_c04():
    g0, g1, g2 = G[0], G[1], G[2]
    return [
        cand(g1, "q", "A", 10, 12),            # 1  at a grid point
        cand(g0 - 60, "q", "A", 8, 8),         # 2  before the grid
        cand(g0, "q", "A", 9, 9),              # 3  at the first grid point
        cand(g0 + 1, "x"),                     # 4  just after a grid point
        cand(g0 + L, "q", "B", 20, 22),        # 5  exactly at the latency bound
        cand(g0 + L + 1, "x"),                 # 6  just beyond
        cand(g1, "x"),                         # 7  same stamp as 1 (tie: insertion order)
        cand(DAY - 60, "x"),                   # 8  60 s before midnight of day 0
        cand(DAY + 1, "q", "B", 21, 21),       # 9  1 s after midnight
        cand(g1 + L, "q", "A", 11, 11),        # 10 at the latency bound of the second gap
        cand(g1 + L + 1, "q", "B", 23, 25),    # 11
        cand(g2, "q", "A", 12, 14),            # 12 at the last grid point
        cand(g2 + 1, "x"),                     # 13 after the end of the grid
        cand(g1 + 3600, "d", "B"),             # 14 discontinuation
        cand(g0 + 3600, "q", "A", 9, 11),      # 15
    ]


def env_model(name, grid, cands, mandatory, maxopt, lats, folds, modes, delays=(0,), eplens=(0,), spaces=("box",),
              bads=((0, "ok"),), maxcalls=4, reset_anywhere=True, clock="after_newdate", order="by_time",
              null="in_space", invariants=(), properties=(), trade=False, tick=1, daylen=DAY, resetlens=(0,), specification=None, reuse=False,
              start_stride=1):
    defs = {
        "Grid": list(grid),
        "Cand": list(cands),
        "Mandatory": set(mandatory),
        "Lats": set(lats),
        "Folds": tlagen.Raw("{" + ", ".join("<<%d, %d>>" % f for f in folds) + "}"),
        "Modes": tlagen.Raw("{" + ", ".join("[markov |-> %s, warmup |-> %d]" % ("TRUE" if m[0] else "FALSE", m[1])
                                             for m in modes) + "}"),
        "Delays": set(delays),
        "EpLens": set(eplens),
        "ResetLens": set(resetlens),
        "Spaces": set(spaces),
        "Bads": tlagen.Raw("{" + ", ".join('[at |-> %d, cls |-> "%s"]' % b for b in bads) + "}"),
    }
    plain = {"DayLen": daylen, "MaxOpt": maxopt, "MaxCalls": maxcalls, "ResetAnywhere": reset_anywhere, "ClockRule": clock,
             "HistoryOrder": order, "NullRule": null, "StartStride": start_stride}
    return {
        "name": name,
        "module": tlagen.mc_module("MC", "Env", defs),
        "cfg": tlagen.cfg(defs, plain, invariants=invariants, properties=properties, specification=specification),
        "ctx": {"trade": trade, "maxcalls": maxcalls, "tick": tick, "reuse": reuse},
        "invariants": list(invariants), "properties": list(properties),
    }


def _mode(cfg):
    return "markov" if cfg["markov"] else ("warmup" if cfg["warmup"] >= 0 else "full")


def replay_chunk(ctx, texts):
    from . import replay_env
    out = {"n": 0, "ops": 0, "fails": [], "classes": {}, "sample": None}
    for text in texts:
        s = tlaval.parse_state(text)
        if s["ncalls"] != ctx["maxcalls"]:
            continue                       # only maximal histories: every shorter one is a prefix of one
        cfg = s["cfg"]
        hist = list(s["hist"])
        cfg = dict(cfg)
        cfg["tick"] = ctx.get("tick", 1)
        cfg["reuse_transmitter"] = (ctx.get("reuse") if len(cfg["events"]) % 2 == 1 else False) or False
        fails, n = replay_env.run_case(cfg, hist, ctx["trade"], seed=len(cfg["events"]), owned=ctx.get("owned"))
        out["n"] += 1
        out["ops"] += n
        k = "%s/lat%s/%s" % (_mode(cfg), cfg["lat"], "".join(r["call"][0] for r in hist))
        out["classes"][k] = out["classes"].get(k, 0) + 1
        if out["sample"] is None and len(cfg["events"]) >= 3:
            out["sample"] = {"events": [(e["id"], e["t"], e["kind"]) for e in cfg["events"]], "lat": cfg["lat"],
                             "mode": _mode(cfg), "fold": [cfg["fstart"], cfg["fend"]],
                             "calls": [(r["call"], r["out"], [(x["kind"], x["id"], x["t"]) for x in r["log"]]) for r in hist]}
        for (i, clause, detail) in fails:
            own = ctx.get("owned") is None or clause in ctx["owned"]
            if (own and sum(1 for f in out["fails"] if f["clause"] == clause) < 15) or (not own and len(out["fails"]) < 10):
                rec = hist[i]
                key = "%s/%s/%s/lat%s" % (clause, rec["call"], _mode(cfg), "0" if cfg["lat"] == 0 else "N")
                if cfg["space"] != "box":
                    key += "/" + cfg["space"]
                out["fails"].append({"clause": clause, "key": key, "detail": detail,
                                     "case": {"kind": "env", "trade": ctx["trade"],
                                              "cfg": {k: v for k, v in cfg.items() if k not in ("part",)},
                                              "hist": hist[: i + 1], "call": i}})
    return out


def run_models(rep, models, clauses):
    for m in models:
        ctx = dict(m["ctx"])
        ctx["owned"] = set(clauses)
        explore.explore_and_replay(rep, m["name"], m["module"], m["cfg"], ("harness.env_check", "replay_chunk"),
                                   ctx, clauses, m["invariants"], m["properties"], chunk=200)
