"""Checks decided on EnvFull.tla: C07 (track record and rewards), C09 (insolvency), C11 (roll)."""
from fractions import Fraction as F

from . import tlagen, tlaval, core, explore
from .tlagen import Rec
from .broker_check import FEES

DAY = 86400
YEAR = 31536000

CONTRACTS = {
    "S1": {"mult": 1, "cashreq": 1, "mr": F(0), "builtin": "ETF"},
    "F4": {"mult": 4, "cashreq": 0, "mr": F(1, 4)},
    "S2": {"mult": 2, "cashreq": 1, "mr": F(0)},
    "G1": {"mult": 1, "cashreq": 0, "mr": F(1, 2)},
    "H19": {"mult": 50, "cashreq": 0, "mr": F(1, 10), "builtin": "ES", "ym": (2019, 3)},
    "M19": {"mult": 50, "cashreq": 0, "mr": F(1, 10), "builtin": "ES", "ym": (2019, 6)},
    "U19": {"mult": 50, "cashreq": 0, "mr": F(1, 10), "builtin": "ES", "ym": (2019, 9)},
}


def bars(grid, paths, spread):
    """a quote for every contract at every timestep: paths {contract: [bid per timestep or None]}"""
    ev = []
    for k, g in enumerate(grid):
        for c, p in paths.items():
            if p[k] is not None:
                sp = spread[c] if isinstance(spread, dict) else spread
                ev.append(Rec(t=g, kind="q", c=c, bid=p[k], ask=p[k] + sp))
    return ev


def full_model(name, contracts, space, grid, events, targets, lats=(0,), delays=(0,), fees="free", rate=F(0), markup=F(0),
               deposit=F(1000), thr=F(0), maxsteps=3, ruin="done", chain=(), chain_ltd=(), chain_exp=(), yearlen=0,
               base=(2019, 3, 4), invariants=(), properties=(), reset_anywhere=False, clockscope="restored_on_entry",
               extends="EnvFull", extra_plain=None, chain_offset=0, fractional=True, rate_path=(), measure="weight", relative=False, menu=False):
    cs = {c: CONTRACTS[c] for c in contracts}
    fixed, prop = FEES[fees]
    defs = {
        "C": set(contracts),
        "Mult": {c: cs[c]["mult"] for c in contracts},
        "CashReq": {c: cs[c]["cashreq"] for c in contracts},
        "Mr": {c: cs[c]["mr"] for c in contracts},
        "Fixed": fixed, "Prop": prop, "Deposit": deposit, "Rate": rate, "RatePath": [tuple(x) for x in rate_path], "Markup": markup, "Epsilon": F(0),
        "Grid": list(grid), "Events": list(events), "Lats": set(lats), "Delays": set(delays),
        "Targets": tlagen.Raw("{" + ", ".join(tlagen.tla(dict(t)) for t in targets) + "}"),
        "ChainSeq": list(chain), "ChainLtd": list(chain_ltd), "ChainExp": list(chain_exp), "Thr": thr,
    }
    plain = {"RefRule": "carry", "SpotMult": "applied", "SubLot": "skip", "YearLen": yearlen, "MaxSteps": maxsteps,
             "RuinStep": ruin, "ResetAnywhere": reset_anywhere, "ClockScope": clockscope, "ChainOffset": chain_offset, "Fractional": bool(fractional), "Measure": measure, "Relative": bool(relative)}
    plain.update(extra_plain or {})
    return {
        "name": name,
        "module": tlagen.mc_module("MC", extends, defs),
        "cfg": tlagen.cfg(defs, plain, invariants=invariants, properties=properties),
        "ctx": {"model": {"contracts": cs, "space": list(space), "chain": list(chain), "fixed": fixed, "prop": prop,
                          "deposit": deposit, "rate": rate, "markup": markup, "thr": thr, "base": list(base),
                          "chain_offset": chain_offset, "fractional": bool(fractional),
                          "rate_path": [tuple(x) for x in rate_path], "yearlen": yearlen, "measure": measure, "relative": bool(relative),
                          "menu": bool(menu), "targets": [dict(t) for t in targets]},
                "maxsteps": maxsteps, "name": name},
        "invariants": list(invariants), "properties": list(properties),
    }


def replay_chunk(ctx, texts):
    from . import replay_envfull
    out = {"n": 0, "ops": 0, "fails": [], "classes": {}, "sample": None}
    kinds = ["simple", "log", "pnl", "logret"]
    for text in texts:
        s = tlaval.parse_state(text)
        hist = list(s["hist"])
        if not hist:
            continue
        env = s["env"]
        nsteps = sum(1 for r in hist if r["call"] == "step")
        # maximal behaviours only: the step bound is reached, or the episode is over and one more call was refused
        if not (nsteps == ctx["maxsteps"] or hist[-1]["out"] in ("ended", "error", "broke")):
            continue
        if hist[-1]["out"] == "ok" and env["done"] and nsteps < ctx["maxsteps"]:
            continue
        cfg = s["cfg"]
        kind = kinds[(len(hist) + cfg["lat"] + cfg["delay"] + out["n"]) % len(kinds)]
        fails, n = replay_envfull.run_case(ctx["model"], cfg, hist, kind, owned=ctx.get("owned"))
        out["n"] += 1
        out["ops"] += n
        k = "lat%s/d%s/%s" % (cfg["lat"], cfg["delay"], "".join(r["out"][0] for r in hist))
        out["classes"][k] = out["classes"].get(k, 0) + 1
        if out["sample"] is None and nsteps >= 2:
            out["sample"] = {"lat": cfg["lat"], "delay": cfg["delay"], "reward": kind,
                             "calls": [(r["call"], r["target"], r["out"], r["done"], r["nlv"]) for r in hist]}
        for f in fails:
            i, clause, detail = f[0], f[1], f[2]
            extra = f[3] if len(f) > 3 else ""
            own = ctx.get("owned") is None or clause in ctx["owned"]
            if (own and sum(1 for x in out["fails"] if x["clause"] == clause) < 15) or (not own and len(out["fails"]) < 10):
                key = "%s/%s" % (clause, extra) if extra else "%s/lat%s/d%s" % (clause, "0" if cfg["lat"] == 0 else "N", cfg["delay"])
                out["fails"].append({"clause": clause, "key": key, "detail": detail,
                                     "case": {"kind": "envfull", "model_name": ctx["name"], "model": ctx["model"],
                                              "cfg": {k2: v for k2, v in cfg.items() if k2 != "part"},
                                              "hist": hist[: i + 1], "reward": kind}})
    return out


def run_models(rep, models, clauses):
    for m in models:
        ctx = dict(m["ctx"])
        ctx["owned"] = set(clauses)
        explore.explore_and_replay(rep, m["name"], m["module"], m["cfg"], ("harness.envfull_check", "replay_chunk"),
                                   ctx, clauses, m["invariants"], m["properties"], chunk=100, workers=4)


def clauses_of(prop):
    from .replay_envfull import CLAUSE_PROPS
    return {c for c, ps in CLAUSE_PROPS.items() if prop in ps}


G = [36000 + DAY * k for k in range(8)]
L = 30
H = F(1, 2)

C07_INV = ["OneEntryPerExec", "StrictTimes", "LedgerReplay", "RewardDef", "Compounding"]
ASSUME = [
    "bar-shaped streams: a quote for every contract at every timestep, plus extra quotes inside the latency window",
    "exact-rational domain (prices 8/12/16, multipliers 1/2/4/50, fees (0,0) or (1,1/16)); comparisons at 1e-9 relative",
    "interest accrues only in the yearly-grid model (stamps are whole years, so the factor is rational); elsewhere the rate is 0",
    "log rewards are evaluated by the harness from the exact NLV ratio the model provides",
]


def c07_models(tier):
    n = 4
    grid = G[:n]
    ev = bars(grid, {"S1": [8, 12, 16, 12], "F4": [12, 8, 12, 16]}, {"S1": 0, "F4": 4})
    ev += [Rec(t=grid[1] + L, kind="q", c="F4", bid=16, ask=16), Rec(t=grid[2] + 10, kind="q", c="S1", bid=12, ask=16)]
    tg = [{"S1": H, "F4": H}, {"F4": F(-1)}, {"S1": F(1)}, {}, {"S1": F(1, 4), "F4": F(3, 2)}]
    ms = [full_model("bars-dy", ["S1", "F4"], ["S1", "F4"], grid, ev, tg[:4] if tier == "quick" else tg, lats=(0, L),
                     delays=(0, 1), fees="dy", maxsteps=3, invariants=C07_INV)]
    ev2 = bars(grid, {"S1": [8, 8, 12, 12], "F4": [8, 12, 12, 8]}, 0)
    ms.append(full_model("bars-free", ["S1", "F4"], ["S1", "F4"], grid, ev2, tg[:4], lats=(0,), delays=(0, 1), fees="free",
                         maxsteps=3, invariants=C07_INV))
    ygrid = [YEAR * k for k in range(1, 5)]
    ev3 = bars(ygrid, {"S1": [8, 12, 8, 12], "F4": [12, 12, 8, 8]}, {"S1": 4, "F4": 0})
    ms.append(full_model("yearly-interest", ["S1", "F4"], ["S1", "F4"], ygrid, ev3, [{"S1": H}, {"F4": -H}, {}, {"S1": F(3, 2)}],
                         lats=(0,), delays=(0, 1), fees="free", rate=F(1, 8), markup=F(1, 16), yearlen=YEAR, maxsteps=3,
                         base=(1989, 1, 1), invariants=C07_INV))
    # the reference rate is a published series (loaded with Transmitter.add_prices, as TradingEnvXY does) that falls to
    # exactly zero after two years: from then on idle cash earns nothing and a loan costs the markup only
    ms.append(full_model("yearly-rate-path", ["S1", "F4"], ["S1", "F4"], ygrid, ev3, [{"S1": H}, {}, {"S1": F(3, 2)}],
                         lats=(0,), delays=(0,), fees="free", rate=F(0), rate_path=[(1, F(1, 8)), (3, F(0))], markup=F(1, 16),
                         yearlen=YEAR, maxsteps=3, base=(1989, 1, 1), invariants=C07_INV))
    return ms


def c07(tier, seed):
    rep = core.Report("C07", tier, seed)
    rep.assumptions = list(ASSUME)
    run_models(rep, c07_models(tier), clauses_of("C07"))
    # the account behind the record (Broker.tla): rebalances whose imbalance is a sliver of a contract, below the broker's
    # epsilon (set to 1/1000 here; the default 1e-7 needs denominators beyond TLC's integers) - whatever the entry lists as
    # traded was executed and paid for
    from . import broker_check, props_broker
    e = F(1, 2048)
    rq = broker_check.req
    bm = broker_check.model("sliver-trades", ["S5", "F5"], ["quote", "rebal"], 4, fees="paid", bids=(8,), spreads=(0, 2),
                            reqs=[rq({"S5": F(1)}, measure="lots"), rq({"S5": 1 + e}, measure="lots"), rq({"F5": e}, measure="lots"),
                                  rq({"S5": F(1), "F5": F(-1)}, measure="lots")], epsilon=F(1, 1000), maxrebal=3,
                            invariants=["NoSpuriousFailure"])
    broker_check.explore_and_replay(rep, bm, {"track_replay"})
    # the container on its own (TrackRecord.tla, every path): stamps arriving in any order, duplicated stamps, burn-in
    from . import trackrecord_check
    trackrecord_check.check(rep, tier, {"container"})
    # code -> spec: stamps of the executions recorded from the repository's own back-tests (EnvTrace.tla, clause stamp)
    from . import envtrace_check
    envtrace_check.validate_repo_tests(rep, tier, {"stamp"})
    # code -> spec at the level of the whole environment: long random episodes of a real TradingEnv on a dyadic grid,
    # validated line by line by TLC (EnvLedgerTrace.tla)
    from . import envledger_check
    envledger_check.validate(rep, "C07", 8 if tier == "quick" else 120, seed, tier)
    return rep.finish()


C09_INV = ["BrokeEndsEpisode", "RuinStepReturnsDone", "LedgerReplay", "OneEntryPerExec"]
C09_PROPS = ["BrokeNeverTrades", "DoneIsAbsorbing"]


def c09_models(tier, ruin="done"):
    n = 5
    grid = G[:n]
    tg = [{"F4": F(3)}, {"F4": F(-2)}, {"S1": F(2)}, {}]
    # 3x long: 12 -> 8 wipes the account exactly, 12 -> 6 sends it below zero; then prices recover
    ev_a = bars(grid, {"S1": [12, 12, 12, 12, 12], "F4": [12, 12, 8, 12, 12]}, 0)
    ev_b = bars(grid, {"S1": [12, 8, 4, 12, 12], "F4": [12, 16, 18, 12, 12]}, 0)
    # the crash arrives in the latency window: the decision of that step finds the account insolvent
    ev_c = bars(grid, {"S1": [12, 12, 12, 12, 12], "F4": [12, 12, 12, 12, 12]}, 0) + \
        [Rec(t=grid[1] + L, kind="q", c="F4", bid=6, ask=6), Rec(t=grid[2] + L, kind="q", c="F4", bid=20, ask=20)]
    ms = [full_model("crash-bar", ["S1", "F4"], ["S1", "F4"], grid, ev_a, tg, lats=(0,), delays=(0, 1), maxsteps=4, ruin=ruin,
                     invariants=C09_INV, properties=C09_PROPS),
          full_model("crash-both", ["S1", "F4"], ["S1", "F4"], grid, ev_b, tg, lats=(0,), delays=(0,), maxsteps=4, ruin=ruin,
                     invariants=C09_INV, properties=C09_PROPS),
          full_model("crash-latent", ["S1", "F4"], ["S1", "F4"], grid, ev_c, tg[:2] + [{}], lats=(L,), delays=(0, 1), maxsteps=4,
                     ruin=ruin, invariants=C09_INV, properties=C09_PROPS)]
    # the crash arrives in the latency window and the account stays insolvent through the step
    ev_e = bars(grid, {"S1": [12, 12, 12, 12, 12], "F4": [12, 12, 6, 6, 12]}, 0) + \
        [Rec(t=grid[1] + L, kind="q", c="F4", bid=6, ask=6)]
    ms.append(full_model("crash-latent-stay", ["S1", "F4"], ["S1", "F4"], grid, ev_e, tg[:2] + [{}], lats=(L,), delays=(0, 1),
                         maxsteps=4, ruin=ruin, invariants=C09_INV, properties=C09_PROPS))
    # insolvency through the interest due: 4x long spot financed at 3/16 a year; after a year the position is worth more
    # than the loan but less than loan + interest, so the decision of that step finds the account insolvent
    ygrid = [YEAR * k for k in range(1, 5)]
    ev_f = bars(ygrid, {"S1": [8, 7, 7, 8], "F4": [8, 8, 8, 8]}, 0)
    ms.append(full_model("crash-interest", ["S1", "F4"], ["S1", "F4"], ygrid, ev_f, [{"S1": F(4)}, {"S1": F(2)}, {}], lats=(0,),
                         delays=(0,), rate=F(1, 8), markup=F(1, 16), yearlen=YEAR, maxsteps=3, ruin=ruin, base=(1989, 1, 1),
                         invariants=C09_INV, properties=C09_PROPS))
    # a short futures position with a bid/ask spread: it is bought back at the ask, so a rally to 17/18 wipes a 2x short
    # opened at 12/13 exactly (marked at the bid the account would still look solvent)
    ev_g = bars(grid, {"S1": [12, 12, 12, 12, 12], "F4": [12, 12, 17, 12, 12]}, {"S1": 0, "F4": 1})
    ms.append(full_model("crash-short-spread", ["S1", "F4"], ["S1", "F4"], grid, ev_g, [{"F4": F(-2)}, {"F4": F(-1)}, {}], lats=(0,),
                         delays=(0,), maxsteps=4, ruin=ruin, invariants=C09_INV, properties=C09_PROPS))
    # two margined contracts open at once (either one first in the account): the loss of each one counts
    ev_h = bars(grid, {"F4": [12, 12, 8, 12, 12], "G1": [8, 8, 8, 8, 8]}, 0)
    tg2 = [{"F4": F(3), "G1": F(1, 2)}, {"F4": F(3)}, {"G1": F(1, 2)}, {}]
    for nm, sp in (("crash-two-margined", ["F4", "G1"]), ("crash-two-margined-rev", ["G1", "F4"])):
        ms.append(full_model(nm, ["F4", "G1"], sp, grid, ev_h, tg2, lats=(0,), delays=(0,), maxsteps=3, ruin=ruin,
                             invariants=C09_INV, properties=C09_PROPS))
    # a quote of exactly zero (a price like any other) on a 2x short, then a rebound far above the entry: the losses of the
    # rebound are settled from the mark at zero
    ev_z = bars(grid, {"S1": [12, 12, 12, 12, 12], "F4": [12, 0, 40, 12, 12]}, 0)
    ms.append(full_model("crash-zero-quote", ["S1", "F4"], ["S1", "F4"], grid, ev_z, [{"F4": F(-4)}, {"F4": F(-2)}, {}], lats=(0,),
                         delays=(0,), deposit=F(128), maxsteps=4, ruin=ruin, measure="lots", invariants=C09_INV,
                         properties=C09_PROPS))
    # actions in numbers of contracts (a space declared with as_weights=False): 3 lots bought on margin at 64, the price
    # falls to 16 and NLV to -16; a decision to sell arrives: nothing executes, the episode ends
    ev_l = bars(grid, {"S1": [64, 64, 16, 64, 64], "F4": [12, 12, 12, 12, 12]}, 0)
    ms.append(full_model("crash-lots", ["S1", "F4"], ["S1", "F4"], grid, ev_l, [{"S1": F(3)}, {"S1": F(1)}, {}], lats=(0,),
                         delays=(0,), deposit=F(128), maxsteps=4, ruin=ruin, measure="lots", invariants=C09_INV,
                         properties=C09_PROPS))
    # an account that was never funded (deposit 0) with actions in numbers of contracts: NLV is exactly 0 when the first decision
    # arrives - nothing executes (no purchase on borrowed cash), the episode ends
    ms.append(full_model("unfunded-lots", ["S1", "F4"], ["S1", "F4"], grid, ev_l, [{"S1": F(1)}, {"F4": F(-1)}, {}], lats=(0,),
                         delays=(0,), deposit=F(0), maxsteps=2, ruin=ruin, measure="lots", invariants=C09_INV,
                         properties=C09_PROPS))
    # the same in the latency window: the crash is applied just before the decision, which therefore arrives insolvent
    ev_m = bars(grid, {"S1": [64, 64, 64, 64, 64], "F4": [12, 12, 12, 12, 12]}, 0) + \
        [Rec(t=grid[1] + L, kind="q", c="S1", bid=16, ask=16), Rec(t=grid[2] + L, kind="q", c="S1", bid=64, ask=64)]
    ms.append(full_model("crash-latent-lots", ["S1", "F4"], ["S1", "F4"], grid, ev_m, [{"S1": F(3)}, {"S1": F(1)}, {}], lats=(L,),
                         delays=(0,), deposit=F(128), maxsteps=4, ruin=ruin, measure="lots", invariants=C09_INV,
                         properties=C09_PROPS))
    if tier != "quick":
        ev_d = bars(grid, {"S1": [12, 12, 12, 12, 12], "F4": [12, 12, 8, 12, 12]}, {"S1": 0, "F4": 4})
        ms.append(full_model("crash-fees", ["S1", "F4"], ["S1", "F4"], grid, ev_d, tg, lats=(0, L), delays=(0, 1), fees="dy",
                             maxsteps=4, ruin=ruin, invariants=C09_INV, properties=C09_PROPS))
    return ms


def c09(tier, seed):
    rep = core.Report("C09", tier, seed)
    rep.assumptions = list(ASSUME) + ["leverage targets 3x long / 2x short futures and 2x long spot; price paths that reach "
                                      "NLV = 0 exactly and below, in the step's bar or inside the latency window, then recover"]
    run_models(rep, c09_models(tier), clauses_of("C09"))
    return rep.finish()


C11_INV = ["OnlyLeadHeld", "NoHoldAtExpiry", "LedgerReplay"]


def c11_models(tier):
    # base 2019-03-04; ES H19 stops trading 2019-03-07 00:00 (day 3) and expires 2019-03-15 (day 11)
    days = [1, 2, 3, 4, 10, 11, 14]
    grid = [36000 + DAY * d for d in days]
    ltd = [3 * DAY, 101 * DAY, 192 * DAY]       # 03-07, 06-13, 09-12
    exp = [11 * DAY, 109 * DAY, 200 * DAY]      # 03-15, 06-21, 09-20
    paths = {"S1": [8, 8, 12, 12, 8, 8, 12],
             "H19": [12, 12, 16, 12, 12, None, None], "M19": [12, 16, 16, 12, 8, 12, 12], "U19": [16, 16, 12, 12, 12, 8, 8]}
    ev = bars(grid, paths, {"S1": 0, "H19": 4, "M19": 4, "U19": 0})
    ev += [Rec(t=exp[0], kind="d", c="H19", bid=0, ask=0), Rec(t=exp[1], kind="d", c="M19", bid=0, ask=0),
           Rec(t=exp[2], kind="d", c="U19", bid=0, ask=0)]
    tg = [{"CH": H}, {"CH": -H}, {"S1": H, "CH": F(1)}, {}]
    cs = ["S1", "H19", "M19", "U19"]
    kw = dict(chain=["H19", "M19", "U19"], chain_ltd=ltd, chain_exp=exp, deposit=F(100000), invariants=C11_INV,
              properties=["LeadForward"])
    ms = [full_model("roll", cs, ["S1", "CH"], grid, ev, tg, lats=(0,), delays=(0, 1), fees="free", maxsteps=5, **kw)]
    # the chain configured with a month offset: the second-nearest contract is the one traded
    # the same roll through a DISCRETE action space: a menu of allocations naming the chain, the same entry chosen before and
    # after a last-trading instant (an entry of the menu denotes the chain, i.e. whatever contract leads it when it is executed)
    ms.append(full_model("roll-menu", cs, ["S1", "CH"], grid, ev, tg[:3], lats=(0,), delays=(0,), fees="free", maxsteps=5, menu=True, **kw))
    ms.append(full_model("roll-offset1", cs, ["S1", "CH"], grid, ev, tg[:3], lats=(0,), delays=(0,), fees="free", maxsteps=5,
                         chain_offset=1, **kw))
    # a last-trading instant inside the latency window: timesteps at 23:59:30, quotes again at 00:00:15, latency 60 s;
    # the decision of the step before midnight of 03-07 is executed after the front contract stopped trading
    d2 = [2, 3, 4, 5]
    g2 = [DAY * d - 30 for d in d2]
    p2 = {"S1": [8, 8, 12, 12], "H19": [12, 12, 16, 12], "M19": [12, 16, 16, 12], "U19": [16, 16, 12, 12]}
    ev2 = bars(g2, p2, {"S1": 0, "H19": 4, "M19": 4, "U19": 0})
    for i, g in enumerate(g2[:-1]):
        for c, pth in p2.items():
            ev2.append(Rec(t=g + 45, kind="q", c=c, bid=pth[i] + 4, ask=pth[i] + 4))
    ev2 += [Rec(t=exp[0], kind="d", c="H19", bid=0, ask=0), Rec(t=exp[1], kind="d", c="M19", bid=0, ask=0),
            Rec(t=exp[2], kind="d", c="U19", bid=0, ask=0)]
    ms.append(full_model("roll-latency", cs, ["S1", "CH"], g2, ev2, tg[:3], lats=(60,), delays=(0, 1), fees="free", maxsteps=3,
                         **kw))
    # a no-trade threshold: the old lead is closed at the roll even when its weight is below the threshold
    ms.append(full_model("roll-small", cs, ["S1", "CH"], grid, ev, [{"CH": H}, {"CH": F(1, 32)}, {"CH": F(-1, 32)}], lats=(0,),
                         delays=(0,), fees="free", thr=F(1, 16), maxsteps=5, **kw))
    # one continuous front-month series: the quotes are keyed by the chain itself and land in the book of whatever contract
    # is the lead when they are stamped (the first quote after a last-trading instant opens the new lead's book)
    pk = {"CH": [12, 12, 16, 12, 12, 8, 8], "S1": [8, 8, 12, 12, 8, 8, 12]}     # the chain-keyed quote comes first at every stamp
    evk = bars(grid, pk, {"S1": 0, "CH": 4}) + ev[-3:]
    ms.append(full_model("roll-chainkey", cs, ["S1", "CH"], grid, evk, tg[:3], lats=(0,), delays=(0,), fees="free", maxsteps=5, **kw))
    # two episodes on one environment: the second one starts before the roll again, with the chain already resolved past it
    ms.append(full_model("roll-two-episodes", cs, ["S1", "CH"], grid, ev, tg[:2], lats=(0,), delays=(0,), fees="free", maxsteps=4,
                         reset_anywhere=True, **kw))
    # a step landing exactly on a last-trading instant, with an earlier-stamped quote inserted after the quotes of that instant
    # (events of one timestep are delivered in time order whatever order they were loaded in)
    g3 = [36000 + DAY * 1, 36000 + DAY * 2, DAY * 3, 36000 + DAY * 4, 36000 + DAY * 10]
    p3 = {"S1": [8, 8, 12, 12, 8], "H19": [12, 12, 16, 12, 12], "M19": [12, 16, 16, 12, 8], "U19": [16, 16, 12, 12, 12]}
    ev3 = bars(g3, p3, {"S1": 0, "H19": 4, "M19": 4, "U19": 0}) + ev[-3:]
    ev3.append(Rec(t=36000 + DAY * 2 + 7200, kind="q", c="U19", bid=16, ask=16))
    ms.append(full_model("roll-at-ltd", cs, ["S1", "CH"], g3, ev3, tg[:3], lats=(0,), delays=(0,), fees="free", maxsteps=4, **kw))
    # whole lots only: a targeted line whose imbalance is less than one lot (nothing to trade there) sits next to the chain
    # at the roll; the old lead is still closed and the target re-established in the new lead
    pw = {"S1": [8, 8, 8, 8, 8, 8, 8], "H19": [12, 12, 12, 12, 12, None, None], "M19": [12, 12, 12, 12, 16, 12, 12],
          "U19": [16, 16, 16, 16, 16, 16, 16]}
    evw = bars(grid, pw, 0) + ev[-3:]
    kww = dict(kw)
    kww["deposit"] = F(1100)     # 550 / 8 = 68.75 lots of S1: once 68 are held the imbalance stays a fraction of one lot
    ms.append(full_model("roll-wholelots", cs, ["S1", "CH"], grid, evw, [{"S1": H, "CH": F(1)}, {"S1": H, "CH": F(-1)}, {"CH": H}],
                         lats=(0,), delays=(0,), fees="free", maxsteps=4, fractional=False, **kww))
    if tier != "quick":
        ms.append(full_model("roll-thr", cs, ["S1", "CH"], grid, ev, tg, lats=(0,), delays=(0,), fees="free", thr=F(1, 16),
                             maxsteps=6, **kw))
    return ms


def chain_members_model():
    """a space listing the chain AND the later contracts of the same chain (legal: when the space is built the lead is the
    front contract, which is not listed).  After the roll the chain resolves to a contract that is also listed in its own
    right - with a zero of its own in every action that only targets the chain: the chain's weight still goes to it"""
    days = [1, 2, 3, 4, 10]
    grid = [36000 + DAY * d for d in days]
    ltd = [3 * DAY, 101 * DAY, 192 * DAY]
    exp = [11 * DAY, 109 * DAY, 200 * DAY]
    paths = {"S1": [8, 8, 12, 12, 8], "H19": [12, 12, 16, 12, 12], "M19": [12, 16, 16, 12, 8], "U19": [16, 16, 12, 12, 12]}
    ev = bars(grid, paths, 0)
    ev += [Rec(t=exp[0], kind="d", c="H19", bid=0, ask=0), Rec(t=exp[1], kind="d", c="M19", bid=0, ask=0),
           Rec(t=exp[2], kind="d", c="U19", bid=0, ask=0)]
    cs = ["S1", "H19", "M19", "U19"]
    return full_model("chain-and-later-members", cs, ["CH", "M19", "U19", "S1"], grid, ev,
                      [{"CH": H}, {"CH": -H, "S1": H}, {"U19": H}], lats=(0,), delays=(0,), fees="free", maxsteps=4,
                      chain=["H19", "M19", "U19"], chain_ltd=ltd, chain_exp=exp, deposit=F(100000), invariants=["LedgerReplay"])


def c11(tier, seed):
    from . import calendar_check
    rep = core.Report("C11", tier, seed)
    rep.assumptions = list(ASSUME) + [
        "lead resolution: every built-in class over 1998..2027, month offsets 0..2, probes at every 7th midnight (every day in "
        "the thorough tier) and at every last-trading instant -1 s / exact / +1 s",
        "roll: real ES H19/M19/U19 chain with synthetic quotes around the March 2019 roll; gaps between timesteps are shorter "
        "than the roll window (8 days)",
    ]
    calendar_check.lead_check(rep, tier)
    # two environments trading the chain in one process, their calls interleaved in every order (EnvPair.tla): each resolves
    # the chain by its OWN simulation time, whatever time the other one left on the shared clock
    from . import pair_check
    for m in pair_check.pair_models(tier):
        ctx = dict(m["ctx"])
        ctx["maxcalls"] = 5 if tier == "quick" else 6
        explore.explore_and_replay(rep, "pair-" + m["name"], m["module"], m["cfg"], ("harness.pair_check", "replay_chunk"), ctx,
                                   {"pair_roll"}, m["invariants"], m["properties"], chunk=60, workers=8, timeout=3600)
    run_models(rep, c11_models(tier), clauses_of("C11"))
    return rep.finish()
