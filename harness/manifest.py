"""Generate /verif/MANIFEST.json from the table below and validate it against the schema.
Run: /venv/bin/python -m harness.manifest"""
import json
import os

ROOT = os.path.dirname(os.path.dirname(os.path.abspath(__file__)))

ALL = ["C%02d" % i for i in range(1, 20)]

BROKER_NOTE = ("Trusted base: TLC 1.8, the TLA+ value parser and the replay harness; grid domain (integer prices, even "
               "spreads, integer lots, multipliers {1,2,5}, margin requirements {1/4,1/2,1}, two fee schedules) at 1e-9 "
               "relative tolerance against exact rationals; bounded history depth; single-threaded use.")

CHECKS = {
    "C01": dict(
        text="TLC checks the self-financing identity (invariant SelfFinancing in every reachable state, action properties "
             "TradeDelta / QuoteDelta / Neutral on every transition) on Broker.tla exhaustively to a bounded depth; every "
             "distinct (state, last operation) of the model is then replayed with an operation history into a real "
             "tradingenv Broker+Exchange and the NLV the code reports is compared with the identity after every operation; "
             "thousands of random longer behaviours from TLC's simulation mode are replayed the same way; further models replay every "
             "PATH of three operations (no VIEW), orders priced on an earlier book and executed later (TradeAt), a bid of exactly "
             "zero; in the other "
             "direction random executions recorded from the real Broker are validated line by line by TLC (BrokerTrace.tla).",
        design="5 C01", technique="TLA+ spec (Broker.tla/LedgerOps.tla) model-checked with TLC; model states and simulated "
                                  "behaviours replayed into the real Broker; recorded Broker traces validated by TLC "
                                  "(BrokerTrace.tla)", note=BROKER_NOTE),
    "C05": dict(
        text="Same exhaustive exploration of Broker.tla with invariants MarginInv and NlvDecomposition; at every observation "
             "point of every replayed history the code's posted margins, the decomposition cash + margins + fully-paid "
             "liquidation value = reported NLV, the cash balance itself (what was swept to or from cash) and the reported weights are "
             "compared with the specification; an extra model "
             "covers the broker's epsilon rule (residual positions dropped); simulated behaviours and TLC-validated recorded "
             "traces (BrokerTrace.tla, margins at observation points) as for C01.",
        design="5 C05", technique="TLA+ spec model-checked with TLC; model states and simulated behaviours replayed into the "
                                  "real Broker; recorded Broker traces validated by TLC (BrokerTrace.tla)",
        note=BROKER_NOTE),
    "C13": dict(
        text="Fault enumeration inside the TLA+ model: quotes losing one or both sides and discontinuations are actions of "
             "Broker.tla enabled at every point of every history; TLC checks ValueFailsLoudly, RebalanceNeedsQuotes and the "
             "action property RebalanceAtomic; every model state is replayed into the real Broker with outcome classes "
             "{ok, broke, error} compared, and NLV queried on a copy after every operation must fail exactly when an open "
             "position has no liquidation quote (and be a number otherwise); a second model without VIEW replays every PATH "
             "of three operations, and simulation-mode behaviours add longer ones.",
        design="5 C13", technique="TLA+ spec with fault actions model-checked with TLC; every model state, every path of "
                                  "three operations and simulated behaviours replayed into the real Broker", note=BROKER_NOTE),
}

CHECKS["C03"] = dict(
    text="TLC checks TargetReached / FrictionlessNlv / NoSpuriousFailure (invariants) and SecondRebalanceIdle (action property) "
         "on Broker.tla with exact rational arithmetic: after every rebalance, from every prior holding the bounded model can "
         "reach, position x multiplier x execution-side quote = w x pre-trade NLV for targeted contracts, untargeted holdings are "
         "closed, lot targets are reached exactly. Every model state (and simulated longer behaviours) is replayed into the real Broker and positions, "
         "trades, pre/post NLV are compared with the exact rationals; an Env.tla model replays actions of portfolio spaces "
         "declared in numbers of contracts (Box and Discrete) into a real TradingEnv: measure, fractional flag and the "
         "position reached are compared.",
    design="5 C03", technique="TLA+ spec with exact rationals (Rat.tla) model-checked with TLC; every model state replayed "
                              "into the real Broker", note=BROKER_NOTE)
CHECKS["C12"] = dict(
    text="TLC checks the declarative trade filter TradeIff (action property: a contract is traded iff its imbalance is non-zero "
         "and its imbalance weight >= threshold or it is held and untargeted, whole lots by truncation toward zero, sub-lot "
         "imbalances skipped), NoZeroTrades and NoSpuriousFailure against the mechanism MakeTradesF; every rebalance of every "
         "model state - including imbalance weights exactly at and 1/64 around the threshold in a dyadic model where binary "
         "floating point is exact - is replayed into the real Broker and the emitted trades compared.",
    design="5 C12", technique="TLA+ spec model-checked with TLC; every model state replayed into the real Broker",
    note=BROKER_NOTE)

ENV_NOTE = ("Trusted base: TLC 1.8, the TLA+ value parser, the replay harness (recording observer Feature + run-time wrappers "
            "around Broker.rebalance and numpy.random.choice); time lattice of events around grid points / latency bounds / "
            "midnight; bounded numbers of grid points, events and calls; synchronous Transmitter, single thread.")
CHECKS["C04"] = dict(
    text="TLC enumerates configurations (every subset of candidate events on a lattice around grid points, the latency bound and "
         "midnight x latency x fold x full/markov/warm-up reset) and every sequence of reset/step calls up to a bound on Env.tla, "
         "whose reset/step/notify follow the code's own steps; the declarative invariants ExactlyOnce, OnTime, InOrder, "
         "ClockIsLatest, LatencyRule are checked in every state. Every maximal call history is replayed into a real "
         "Transmitter+TradingEnv with a recording observer and the delivered notifications (event, order, clock, side of the "
         "execution) and env.now() are compared call by call. A second lattice in units of 0.1 ms covers sub-second stamps. In "
         "the other direction the repository's own regression back-tests run under a recording pytest plugin and TLC validates "
         "every recorded episode against EnvTrace.tla (order, clock, new-date, stamp, ended).",
    design="5 C04", technique="TLA+ spec (Env.tla/TransmitterOps.tla) model-checked with TLC; every maximal behaviour replayed "
                              "into the real TradingEnv; episodes recorded from the repository's tests validated by TLC "
                              "(EnvTrace.tla)", note=ENV_NOTE)
CHECKS["C08"] = dict(
    text="Env.tla with bar-shaped streams plus extra quotes at and 1 s beyond the latency bound, delays 0..2, Box and Discrete "
         "spaces: TLC checks FifoDelay, ExecPricedAtLatencyCut, LatencyRule, StampIsLatest, NullActionExecutes; every behaviour "
         "is replayed into the real TradingEnv with pairwise distinct actions, comparing the executed allocation, the quotes the "
         "execution saw (snapshot at Broker.rebalance), trade prices and the side of the execution each event was applied on.",
    design="5 C08", technique="TLA+ spec model-checked with TLC; every behaviour replayed into the real TradingEnv", note=ENV_NOTE)
CHECKS["C15"] = dict(
    text="Env.tla with sparse event-bearing grids, overlapping / degenerate folds, episode lengths 1..fold size+1 and every valid "
         "start chosen nondeterministically: TLC checks InFold, Consecutive, ExactLength, StartSetExact and the action property "
         "DoneIsAbsorbing; replays force the chosen start through a wrapper of numpy.random.choice that also records the candidate "
         "set. Walk-forward splitting is a pure function: TLC tabulates TransmitterOps!WalkForward for all N<=10 (14 thorough) and "
         "checks disjointness, adjacency and sizes; the table is compared exhaustively with Transmitter.walk_forward.",
    design="5 C15", technique="TLA+ spec model-checked with TLC; behaviours replayed into the real TradingEnv; walk-forward table "
                              "compared exhaustively", note=ENV_NOTE)
CHECKS["C17"] = dict(
    text="Env.tla with one malformed action of each class (wrong shape, below / above bounds, NaN, bad index) injected at any "
         "step, delays 0..2, four spaces (Box weights, Box with cash entry, Box in lots, Discrete): TLC checks "
         "MalformedNeverExecutes, RejectedByDueStep, MalformedRejected, FifoDelay; replays map the class to concrete arrays / "
         "indices and compare outcome class, absence of any execution / track-record entry / holdings change, and for in-space "
         "actions the executed allocation.",
    design="5 C17", technique="TLA+ spec model-checked with TLC; behaviours replayed into the real TradingEnv", note=ENV_NOTE)

CHECKS["C14"] = dict(
    text="TLC explores every interleaving of quotes, discontinuations and clock moves over assets, futures and a futures chain "
         "(Exchange.tla) checking LastQuoteWins, DeadShowsNoPrice, ChainAlias, ExecSide and the action properties Isolation, "
         "DeadStaysDead, HistoryAppendOnly, LeadMonotone; a second exploration has NO depth bound: under the abstraction fview "
         "(what each book shows, whether it lives, its last history entry, the clock) the state space is finite and TLC runs to the "
         "fixpoint, so the state invariants hold after interleavings of any length over the model's data; every model state is replayed into a real Exchange and the books seen "
         "through every key (contract, symbol string, chain; a second world has a three-contract chain addressed by its "
         "lead and, through a chain built with month=1, one contract down the curve) are compared; in the other direction random executions recorded "
         "from the real Exchange are validated line by line by TLC against ExchangeTrace.tla (every line consumed, verdict names "
         "the failing clause).",
    design="5 C14", technique="TLA+ spec model-checked with TLC; spec behaviours replayed into the real Exchange and recorded "
                              "implementation traces validated by TLC (ExchangeTrace.tla)",
    note="Trusted base: TLC 1.8, CommunityModules Json, the harness; integer price grid; forward-moving clock over the "
         "chain's last-trading instants; bounded depth.")

CHECKS["C19"] = dict(
    text="Exhaustive over the whole input domain: TLC computes expiry, cut-off and symbol of every (class, year, month) for the 8 "
         "built-in classes and years 1970..2099 from independent civil-date arithmetic (Calendar.tla) and checks ExpiryRule (the "
         "rule restated without the construction), CutoffBeforeExpiry, ChainOrdered and SymbolRule on all 12 480 rows; every row is "
         "compared with the real Future(year, month) (expiry, symbol, last trading date < expiry, one discontinuation event at the "
         "expiry) and chains over many spans are checked for order, symbol uniqueness, membership and events.",
    design="5 C19", technique="TLA+ calendar specification enumerated exhaustively by TLC; full table compared with the "
                              "implementation", note="Trusted base: TLC, the harness, python datetime for converting day numbers; "
                              "which months a chain lists for a span is taken from the code (pandas date_range).")
CHECKS["C06"] = dict(
    text="Interest.tla keeps the compounding exponent symbolically (seconds compounded into the balance): TLC explores every way of "
         "cutting intervals from 1 s to 30 y with queries, accruals, no-trade rebalances and earlier times interleaved, for 5 "
         "(rate, markup) regimes and balances of both signs and two magnitudes, checking SplitInvariant, ClockStartsAtFirstCall and "
         "the action properties QueryPure, NoDoubleAccrual, RejectEarlier; every behaviour is replayed into a real Broker and each "
         "returned amount and balance is compared with the closed form evaluated with 50-digit decimals. A second model "
         "(Broker.tla, whole years, exact rationals) has a margined position open: posted margin earns nothing. The same "
         "specification is also instantiated with a time unit of 1/4 s (sub-second stamps), every third behaviour uses time-zone "
         "aware instants whose UTC offset changes, and EnvFull.tla models feed a published rate path that falls to zero.",
    design="5 C06", technique="TLA+ spec with symbolic exponents model-checked with TLC; every behaviour replayed into the real "
                              "Broker, closed form evaluated in 50-digit decimal", note="Constant rate per behaviour; 1e-9 relative "
                              "tolerance; pow() itself is trusted beyond that.")

FULL_NOTE = ("Trusted base: TLC 1.8, the parser and replay harness; bar-shaped streams on a small exact-rational grid; bounded "
             "numbers of steps; rewards evaluated by the harness from the exact NLV ratio of the model; single thread.")
CHECKS["C07"] = dict(
    text="EnvFull.tla composes the event loop with the numeric ledger: TLC explores every sequence of target allocations "
         "(spot+futures, spread, fees, latency 0/30 with a quote inside the window, delay 0/1, a yearly grid with interest) checking "
         "OneEntryPerExec, StrictTimes, LedgerReplay (every reported pre/post NLV equals an independent ledger built from deposit, "
         "prices paid, fees and interest only), RewardDef and Compounding; every maximal behaviour is replayed into a real "
         "TradingEnv comparing track-record entries (stamp, pre/post NLV, trades, commissions, interest), derived frames, all four "
         "reward functions and the compounding of simple returns; a published reference-rate path that falls to zero "
         "(RatePath); at the account level (Broker.tla, epsilon 1/1000) rebalances that trade a sliver of a contract: the trades an "
         "entry lists, applied to its pre-trade NLV, give its post-trade NLV. The frame accessors are read after every executed "
         "decision as well as at the end (rows = entries), per-row and cumulative costs, entries addressed by position and by stamp, "
         "the burn-in option, and a deepcopy / pickle copy of the record must report the same costs; TrackRecord.tla models the "
         "container on its own (every path of checkpoints with stamps in any order, duplicated stamps, entries with and without "
         "trades: OneEntryPerCheckpoint, UniqueStamps, BurnIsLeadingIdle, DuplicateRefused, AppendOnly) and every path is replayed "
         "on a real TrackRecord; allow-listed regression tests "
         "of the repository run under a recording plugin and TLC validates every recorded episode (EnvTrace.tla).",
    design="5 C07", technique="TLA+ spec (EnvFull.tla over LedgerOps/TransmitterOps) model-checked with TLC; every behaviour "
                              "replayed into the real TradingEnv", note=FULL_NOTE)
CHECKS["C09"] = dict(
    text="EnvFull.tla with leveraged / short targets and price paths that take NLV to exactly 0 and below, in the step's bar or "
         "inside the latency window, with and without recovery: TLC checks BrokeNeverTrades and DoneIsAbsorbing (action "
         "properties), BrokeEndsEpisode and RuinStepReturnsDone; replays compare outcome class, done flag, absence of any trade or "
         "track entry for an insolvent decision, refusal after the end (after a step in which an insolvent decision raised, one more "
         "call is made and must change nothing, not even the clock), and both valuation modes on a copy of the broker; models "
         "with a short position under a spread, two margined contracts, actions in numbers of contracts, and a user feature that "
         "values the account on every quote. The "
         "ruin-step clause is a recorded known finding (known_findings.json).",
    design="5 C09", technique="TLA+ spec model-checked with TLC; every behaviour replayed into the real TradingEnv", note=FULL_NOTE)
CHECKS["C11"] = dict(
    text="Lead resolution: TLC computes, from the calendar specification, the lead contract of every built-in class at every probe "
         "instant of 1998..2027 (every 7th midnight; every last-trading instant -1 s / exact / +1 s; month offsets 0..2) and checks "
         "LeadLive; each is compared with FutureChain.lead_contract. Roll: EnvFull.tla with a real ES H19/M19/U19 chain around the "
         "March 2019 roll, long/short/mixed targets, delay 0/1 (threshold in the thorough tier): invariants OnlyLeadHeld, "
         "NoHoldAtExpiry, LedgerReplay and LeadForward; behaviours replayed into a real TradingEnv comparing per-contract positions.",
    design="5 C11", technique="TLA+ specs (CalendarLead.tla, EnvFull.tla) model-checked with TLC; lead table and roll behaviours "
                              "replayed into the implementation", note=FULL_NOTE)

CHECKS["C18"] = dict(
    text="Tabular.tla transcribes TradingEnvXY's index logic (union re-index, start/end clamping, warm-up trimming, holiday "
         "removal, dropping the first `window` dates) on sets of day numbers: TLC enumerates feature/price tables with missing "
         "days, differing ranges (including ranges ending or starting on a real NYSE holiday), windows, strides and bounds and "
         "checks StepsDef, NoStepBeforeWindow, ObsShape; every configuration is instantiated as DataFrames whose cells encode "
         "(day, column), the real TradingEnvXY is run with none / z-score / power transformers, and every observation is compared "
         "with the rows of the published table env.X selected by the model, every quote and rate with the given tables; "
         "further instantiations: episodes in later folds with long strided windows, two exchange calendars in one process, "
         "the windowed State on its own (StateWindow.tla, every path of 6 operations replayed on a real State), and intraday tables "
         "(index numbers are ranks of stamps: prices on the hour, features 30 s later inside a 60 s "
         "latency).",
    design="5 C18", technique="TLA+ spec of the index logic model-checked with TLC; every configuration replayed into the real "
                              "TradingEnvXY", note="Trusted base: TLC, harness, pandas_market_calendars for the holiday dates; the "
                              "published table env.X is the oracle for values; daily tables with at most 1-2 missing days, one intraday layout.")
CHECKS["C02"] = dict(
    text="2-safety by self-composition: NoLookahead.tla runs two instances of Env.tla in lock-step on streams that agree on all "
         "events stamped <= cut (arbitrary extras, overriding quotes and insertion positions afterwards) and TLC checks PrefixEqual "
         "and NextExecCut for all pairs, cuts, latencies and delays in bounds; every pair is then run through two real TradingEnv "
         "instances and everything returned or recorded up to the cut (observations, rewards, done, trades, holdings, NLV, track "
         "record, delivered notifications; the next execution when the streams agree up to cut + latency) is compared bit for "
         "bit. Tabular half: TradingEnvXY on tables whose rows after t are altered with the transformer fitted up to <= t.",
    design="5 C02", technique="TLA+ self-composition model-checked with TLC; TLC-generated stream pairs run through the real "
                              "environment and compared bit for bit", note=ENV_NOTE)

CHECKS["C10"] = dict(
    text="EnvPair.tla: two EnvFull environments share only the process-wide contract clock; TLC interleaves their reset/step calls "
         "in every order (resets at any time) next to solo twins receiving the same calls, and checks IsolatedOutputs / "
         "IsolatedState. Every schedule is replayed on two real TradingEnv instances in one process (ETF + real ES chain around a "
         "roll); each environment's rewards, trades, holdings, NLV and track record are compared bit for bit with the same calls "
         "run alone and, after the last reset, with a freshly built environment. On Env.tla behaviours with resets anywhere "
         "(abandoned episodes, episodes ended by a malformed action, folds, markov / warm-up, latency, delay) the episode after the "
         "last reset is compared bit for bit with a fresh environment. Each environment of a pair observes its portfolio weights "
         "through the library's FeaturePortfolioWeight declared with its own bounds (observations are part of the comparison).",
    design="5 C10", technique="TLA+ composition (EnvPair.tla) model-checked with TLC; every schedule replayed on real "
                              "environments and compared bit for bit with solo / fresh runs", note=FULL_NOTE)
CHECKS["C16"] = dict(
    text="Metrics.tla states the textbook definitions over exact rationals; TLC enumerates every level series over the listed "
         "index patterns (daily, gaps, several observations per day, spans of 73/146/365 days) and integer levels, checks "
         "ScaleInvariant, DrawdownRange, ReturnsCompound, TailBelowVar, and writes the exact values; each series is evaluated by the "
         "pandas methods (returns, CAGR via (1+CAGR)^years = last/first, volatility^2/252, drawdown, VaR, ES, down/upside, ulcer, "
         "tracking error, Sharpe/Sortino/Calmar/Martin composed from the pieces, scale invariance, DataFrame variant) and every "
         "single-defect corruption must be rejected; the rows of tearsheet() equal the metric methods, also after another series with "
         "the same end points and length has been reported on in the same process.",
    design="5 C16", level="model_checking", technique="TLA+ definitions over exact rationals enumerated by TLC on a bounded "
                              "domain; every series evaluated by the real pandas methods",
    note="Bounded domain only (series of 2..5 observations, levels 1..4); regressions (alpha/beta) and omega ratio not covered.")

PENDING = "check not built yet in this round (the TLA+ model for it is planned in DESIGN.md section 5); listed here until its check is registered"


# EnvLedgerTrace.tla (eighth round): the clauses each property owns in the TLC validation of long recorded TradingEnv episodes
_EL = {
    "C01": "positions and NLV after every delivered quote, every execution and every step",
    "C05": "posted margins and the cash balance after every execution and every step",
    "C03": "a target in numbers of contracts is held exactly after its execution; no step fails on a solvent, fully quoted account",
    "C12": "the trades each execution emitted; no step fails on a solvent, fully quoted account",
    "C07": "both Context snapshots of every record entry, one entry per executed decision, the PnL reward of every step",
    "C08": "the executed request is the action submitted `delay` steps earlier; every quote delivered before / after an execution "
           "lies inside / outside the latency window; Box spaces and Discrete menus whose entry 0 (the null action) is not flat",
    "C13": "with quotes that lose a side and discontinuations in a third of the episodes: a rebalance inside step() fails iff the "
           "specification's does, and a failed one leaves positions and record as they were",
    "C15": "done is reported exactly on the episode's last timestep, over two folds whose bounds lie less than a microsecond from "
           "a nanosecond-resolution stamp, whole-fold and fixed-length episodes with a forced start",
}
for _p, _t in _EL.items():
    CHECKS[_p]["text"] += (" In the other direction long random episodes of a real TradingEnv (4-7 contracts, 12-40 timesteps, "
                           "latency, execution delay, commissions, two episodes, actions in numbers of contracts on a dyadic grid "
                           "where floats are exact) are recorded and validated line by line by TLC against EnvLedgerTrace.tla, "
                           "which recomputes the account with LedgerOps: " + _t + ".")
    if "EnvLedgerTrace" not in CHECKS[_p]["technique"]:
        CHECKS[_p]["technique"] += "; recorded TradingEnv episodes validated by TLC (EnvLedgerTrace.tla)"


def build():
    checks = []
    for p in ALL:
        if p not in CHECKS:
            continue
        c = CHECKS[p]
        checks.append({
            "property_id": p,
            "quick_cmd": "./check %s --tier quick" % p,
            "thorough_cmd": "./check %s --tier thorough" % p,
            "evidence_file": "/verif/evidence/%s.json" % p,
            "replay_cmd_template": "./check %s --replay {path}" % p,
            "engine": "tlc+replay",
            "level_claimed": {"category": c.get("level", "model_checking"), "text": c["text"],
                              "design_ref": "DESIGN.md section " + c["design"]},
            "level_note": c["note"],
            "technique": c["technique"],
        })
    na = [{"property_id": p, "reason": NA.get(p, PENDING)} for p in ALL if p not in CHECKS]
    m = {
        "version": 1,
        "setup_cmd": "./setup.sh",
        "hooks": {
            "guard": "TRADINGENV_VERIF",
            "enable": "no source hooks in /repo: the harness observes through the public API, an observer Feature and run-time "
                      "wrappers installed by /verif/harness only; TRADINGENV_VERIF=1 (with TRADINGENV_VERIF_TRACE=<file>) "
                      "switches on the recording pytest plugin /verif/harness/pytest_plugin.py (python -m pytest -p "
                      "harness.pytest_plugin); nothing in /repo reads the variable",
            "baseline_off_cmd": "cd /repo && env -u TRADINGENV_VERIF /venv/bin/python -m pytest -ra -q -p no:cacheprovider "
                                "--timeout=900 --continue-on-collection-errors",
            "source_commits": [],
            "add_only": True,
        },
        "engines": [
            {"name": "tlc+replay", "path": "/verif/harness", "serves_properties": sorted(CHECKS),
             "kind_free_text": "explicit TLA+ specification (/verif/spec) model-checked with TLC; TLC-generated behaviours "
                               "replayed into the real tradingenv objects and recorded implementation traces validated "
                               "against the specification"},
        ],
        "checks": checks,
        "not_applicable": na,
        "notes": "See DESIGN.md. Exit 0 held / 1 VIOLATION / 2 machinery failure. known_findings.json lists recorded and "
                 "fixed defects.",
    }
    return m


NA = {}


def main():
    m = build()
    path = os.path.join(ROOT, "MANIFEST.json")
    with open(path, "w") as f:
        json.dump(m, f, indent=1)
    try:
        import jsonschema
        with open("/root/.vp/MANIFEST.schema.json") as f:
            jsonschema.validate(m, json.load(f))
        print("MANIFEST.json valid: %d checks, %d not_applicable" % (len(m["checks"]), len(m["not_applicable"])))
    except ImportError:
        print("jsonschema not available; written without validation")


if __name__ == "__main__":
    main()
