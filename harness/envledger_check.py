"""Code -> spec for the whole environment loop with its numbers (EnvLedgerTrace.tla): a real TradingEnv is driven over long
random event streams on a dyadic grid with actions in numbers of contracts; every delivered quote, every call of
Broker.rebalance and every return of step() is logged with the account as the code reports it, and TLC recomputes each line
with the operators of LedgerOps.  Sizes are far beyond the exhaustive models (4-6 contracts, 15-40 timesteps, hundreds of
quotes, two episodes per environment); exactness at any length comes from the domain (prices in quarters, whole or half lots,
commissions 1 + 1/16 of the notional), on which binary floating point reproduces the rationals."""
import copy
import json
import os
import random
from datetime import datetime, timedelta
from fractions import Fraction as F

import numpy as np

from . import impl, tlc, tlagen, tlaval
from .broker_check import CONTRACTS, FEES
from .broker_trace import rat

# clause -> properties that own it
CLAUSE_PROPS = {
    "pos": ["C01"], "nlv": ["C01"], "mrg": ["C05"], "cash": ["C05"], "trades": ["C12"], "out": [],
    "fifo": ["C08"], "stamp": ["C08", "C04"], "order": ["C08"], "ctx": ["C07"], "entries": ["C07"], "reward": ["C07"],
    "target": ["C03"], "done": ["C15"], "loud": ["C13"], "atomic": ["C13"], "spurious": ["C03", "C12"],
}
BASE = datetime(2019, 3, 4)   # a Monday
DEPOSIT = 100000
# contract sets (one TLC run per set and fee schedule): spot x1 / x2 / x5, margined x1 (1/2), x2 (100 %), x4 and x5 (1/4)
SETS = [["S1", "F5", "G1", "S5"], ["S2", "F4", "H2", "S5", "G1"], ["S1", "S2", "S5", "F5", "G1", "H2", "F4"]]


def clauses_of(prop):
    return {c for c, ps in CLAUSE_PROPS.items() if prop in ps}


def T(t):
    return BASE + timedelta(seconds=int(t))


def secs(ts):
    return int(round((ts - BASE).total_seconds()))


def gen_config(rnd, tier):
    names = sorted(rnd.choice(SETS))
    n = rnd.randint(12, 22) if tier == "quick" else rnd.randint(20, 40)
    gap = rnd.choice([3600, 7200, 86400])
    grid = [i * gap for i in range(n)]
    lat = rnd.choice([0, 30, 600])
    delay = rnd.choice([0, 0, 1, 2])
    fees = rnd.choice(["free", "dy"])
    fractional = rnd.random() < 0.6
    events = []

    def quote(t, c):
        b = F(rnd.randint(16, 160), 4)
        return {"t": t, "c": c, "bid": b, "ask": b + rnd.choice([F(0), F(1, 4), F(1, 2), F(1)])}
    for c in names:
        events.append(quote(-rnd.randint(0, 3) * 50, c))
    for i in range(n - 1):
        offs = [1, lat, lat + 1, gap // 2, gap - 1, gap] if lat else [1, 2, gap // 2, gap - 1, gap]
        for _ in range(rnd.randint(0, 7)):
            events.append(quote(grid[i] + rnd.choice(offs), rnd.choice(names)))
    # a timestep whose only events lie inside the latency window, followed by a step without latent events, would give two
    # consecutive executions the same stamp, which the track record refuses by design (Env.tla: `Advancing`): every timestep
    # that has events also has one outside the window
    import bisect
    for i in sorted({bisect.bisect_left(grid, e["t"]) for e in events if e["t"] <= grid[-1]}):
        if i >= 1 and all(e["t"] - grid[i - 1] <= lat for e in events if bisect.bisect_left(grid, e["t"]) == i):
            events.append(quote(grid[i], rnd.choice(names)))
    # the environment only stops at timesteps that have events: those with an event in (previous timestep, timestep]
    import bisect
    occupied = sorted({bisect.bisect_left(grid, e["t"]) for e in events if e["t"] <= grid[-1]})
    steps = [grid[i] for i in occupied]
    prevs = [grid[i - 1] if i > 0 else grid[0] - 10 ** 6 for i in occupied]
    n = len(steps)
    if n < 5:
        return gen_config(rnd, tier)
    # faults (a third of the configurations): a quote that loses one side, a discontinuation; the episode then runs until a
    # valuation or a rebalance needs the missing quote - step() must fail exactly there, and leave the account as it was
    if rnd.random() < 0.33:
        for _ in range(rnd.randint(1, 2)):
            i = rnd.randint(max(1, n // 3), n - 1)
            t = steps[i] - rnd.choice([0, 1, 2])
            c = rnd.choice(names)
            kind = rnd.choice(["bid", "ask", "ask", "disc"])
            if kind == "disc":
                events.append({"t": t, "c": c, "disc": True})
            else:
                q = quote(t, c)
                q[kind] = None
                events.append(q)
    half = [F(k, 2) for k in range(-8, 9)]
    whole = [F(k) for k in range(-4, 5)]
    # a third of the configurations use a Discrete menu of allocations in numbers of contracts (entry 0 is whatever it is: the
    # null actions that fill the delay queue denote IT), the others a Box space
    menu = None
    if rnd.random() < 0.33:
        menu = []
        for _ in range(rnd.randint(4, 8)):
            ks = rnd.sample(names, rnd.randint(0, min(3, len(names))))
            menu.append({c: rnd.choice([x for x in (half if fractional else whole) if x != 0]) for c in ks})
    episodes = []
    # every other configuration splits the data into two folds (the first episode runs through fold "a", the second inside fold
    # "f"), and stamps everything with pandas Timestamps carrying a sub-microsecond remainder: the fold bounds are then instants
    # that lie BETWEEN two stamps less than a microsecond apart
    folded = n >= 8 and rnd.random() < 0.5
    nano = folded and rnd.random() < 0.6
    m = rnd.randint(2, n - 4) if folded else None          # fold "a" = steps[0..m], fold "f" = steps[m+1..]
    for ep in range(2):
        if ep == 0:
            start, length = 0, None
            lo, hi = (0, m) if folded else (0, n - 1)
        else:
            lo, hi = (m + 1, n - 1) if folded else (0, n - 1)
            size = hi - lo + 1
            length = rnd.randint(3, max(3, size // 2)) if (not folded or rnd.random() < 0.7) else None   # number of states
            start = lo + (rnd.randint(0, size - length) if length else 0)     # index (into steps) of the first timestep
        nsteps = (hi - start) if length is None else length - 1
        acts, cur = [], {c: F(0) for c in names}
        for _ in range(nsteps):
            r = rnd.random()
            if r < 0.25:
                pass                                   # the same target again: nothing to trade
            elif r < 0.35:
                cur = {c: F(0) for c in names}
            else:
                for c in rnd.sample(names, rnd.randint(1, len(names))):
                    cur[c] = rnd.choice(half if (fractional or rnd.random() < 0.5) else whole)
            acts.append(rnd.randrange(len(menu)) if menu is not None else dict(cur))
        episodes.append({"start": start, "length": length, "actions": acts, "lo": lo, "hi": hi})
    return {"names": names, "grid": grid, "lat": lat, "delay": delay, "fees": fees, "fractional": fractional,
            "events": events, "episodes": episodes, "steps": steps, "prevs": prevs, "folded": folded, "nano": nano, "split": m, "menu": menu}


class Recorder:
    def __init__(self, cfg):
        self.cfg = cfg
        self.ops = []
        self.k = 0
        self.env = None
        self.by_contract = {}
        self.pending_quotes = []

    def account(self):
        br = self.env.broker
        q, m = br.holdings_quantity, br.holdings_margins
        b = copy.deepcopy(br)
        out, v = impl.classify(lambda: b.net_liquidation_value(False))
        return {"pos": {n: rat(q.get(c, 0.0)) for n, c in self.contracts.items()},
                "mrg": {n: rat(m.get(c, 0.0)) for n, c in self.contracts.items()},
                "cash": rat(q[br.base_currency]),
                "nlv": rat(v) if out == "ok" else [0, 0]}

    def on_quote(self, event):
        name = self.by_contract.get(event.contract)
        if name is None:
            return
        line = {"op": "quote", "c": name, "x": rat(event.bid_price), "y": rat(event.ask_price), "t": secs(event.time), "next": 0}
        line.update(self.account())
        self.ops.append(line)
        self.pending_quotes.append(line)

    def on_disc(self, event):
        name = self.by_contract.get(event.contract)
        if name is None:
            return
        line = {"op": "disc", "c": name, "t": secs(event.time)}
        line.update(self.account())
        self.ops.append(line)

    def on_rebalance(self, reb, out):
        self.k += 1
        alloc = {}
        for c, v in reb.allocation.items():
            n = self.by_contract.get(c)
            if n is not None and float(v) != 0.0:
                alloc[n] = rat(v)
        line = {"op": "rebalance", "alloc": alloc, "k": self.k, "thr": [0, 1], "fractional": bool(reb.fractional), "out": out,
                "trades": {}, "ctxpre": [0, 0], "ctxpost": [0, 0], "entries": len(self.env.broker.track_record)}
        if out == "ok":
            tr = {}
            for t in reb.trades:
                n = self.by_contract.get(t.contract)
                tr[n] = tr.get(n, 0.0) + t.quantity
            line["trades"] = {k: rat(v) for k, v in tr.items()}
            line["ctxpre"], line["ctxpost"] = rat(reb.context_pre.nlv), rat(reb.context_post.nlv)
        line.update(self.account())
        self.ops.append(line)


def run_env(cfg):
    """drive a real TradingEnv through the configuration; returns the recorded trace"""
    from tradingenv.env import TradingEnv
    from tradingenv.transmitter import Transmitter
    from tradingenv.events import EventNBBO, EventContractDiscontinued
    from tradingenv.spaces import BoxPortfolio
    from tradingenv.features import Feature
    from tradingenv.broker.fees import BrokerFees
    from tradingenv.broker.broker import EndOfEpisodeError
    from tradingenv.contracts import Rate
    from tradingenv import rewards as R

    rec = Recorder(cfg)

    class Obs(Feature):
        def __init__(self):
            Feature.__init__(self, name="verif-ledger-observer", save=False)

        def process_EventNBBO(self, event):
            rec.on_quote(event)

        def process_EventContractDiscontinued(self, event):
            rec.on_disc(event)

    if cfg.get("nano"):
        import pandas as pd

        def T(t, _ns=400):               # noqa: N802 - shadows the module-level T for this environment
            return pd.Timestamp(BASE + timedelta(seconds=int(t))) + pd.Timedelta(_ns, "ns")
    else:
        T = globals()["T"]
    cs = impl.make_contracts({n: CONTRACTS[n] for n in cfg["names"]})
    rec.contracts = cs
    rec.by_contract = {c: n for n, c in cs.items()}
    folds = None
    if cfg.get("folded"):
        grid, steps, m = cfg["grid"], cfg["steps"], cfg["split"]
        if cfg.get("nano"):
            # fold "a" ends 100 ns after the whole second of the grid point that follows its last timestep: that grid point's own
            # stamp (400 ns after the second) is outside, by 300 ns
            nxt = min(g for g in grid if g > steps[m])
            a_end = T(nxt, 100)
        else:
            a_end = T(steps[m])                      # inclusive bound exactly on the last timestep
        folds = {"a": [datetime.min, a_end], "f": [T(steps[m + 1]), datetime.max]}
    tr = Transmitter([T(t) for t in cfg["grid"]], folds=folds) if folds else Transmitter([T(t) for t in cfg["grid"]])
    nan = float("nan")
    tr.add_events([EventContractDiscontinued(T(e["t"]), cs[e["c"]]) if e.get("disc") else
                   EventNBBO(T(e["t"]), cs[e["c"]], nan if e["bid"] is None else float(e["bid"]), nan if e["ask"] is None else float(e["ask"]))
                   for e in cfg["events"]])
    fixed, prop = FEES[cfg["fees"]]
    fees = BrokerFees(markup=0.0, interest_rate=Rate("VERIF-RATE"), proportional=float(prop), fixed=float(fixed))
    if cfg.get("menu") is not None:
        from tradingenv.spaces import DiscretePortfolio
        space = DiscretePortfolio([cs[n] for n in cfg["names"]], [[float(a.get(n, 0)) for n in cfg["names"]] for a in cfg["menu"]],
                                  as_weights=False, fractional=cfg["fractional"])
    else:
        space = BoxPortfolio([cs[n] for n in cfg["names"]], low=-8.0, high=8.0, as_weights=False, fractional=cfg["fractional"],
                             margin=0.0)
    env = TradingEnv(action_space=space, state=[Obs()], reward=R.RewardPnL(), transmitter=tr, broker_fees=fees,
                     latency=cfg["lat"], steps_delay=cfg["delay"], initial_cash=float(DEPOSIT))
    rec.env = env
    real_choice = np.random.choice
    for ep in cfg["episodes"]:
        # `last`: 1-based index (into the occupied timesteps) of the episode's last timestep
        rec.ops.append({"op": "reset", "start": ep["start"],
                        "last": ep["hi"] + 1 if ep["length"] is None else ep["start"] + ep["length"]})
        last_idx = rec.ops[-1]["last"]
        rec.pending_quotes = []
        fold_kw = {"fold": "a" if ep is cfg["episodes"][0] else "f"} if cfg.get("folded") else {}
        if ep["length"] is None:
            env.reset(**fold_kw)
        else:
            # the only random choice of the code (the first timestep of the episode) is forced to the configuration's
            want = ep["start"] - ep["lo"]               # position among the fold's timesteps

            def forced(a, size=None, replace=True, p=None, _want=want):
                n = len(a) if hasattr(a, "__len__") else int(a)
                if not 0 <= _want < n:
                    raise RuntimeError("start index %s is not among the %d candidates" % (_want, n))
                return list(a)[_want] if hasattr(a, "__len__") else _want
            np.random.choice = forced
            try:
                env.reset(episode_length=ep["length"], **fold_kw)
            finally:
                np.random.choice = real_choice
        orig = env.broker.rebalance

        def wrapped(reb, _orig=orig):
            out = "error"
            try:
                _orig(reb)
                out = "ok"
            except EndOfEpisodeError:
                out = "broke"
                raise
            finally:
                rec.on_rebalance(reb, out)
        env.broker.rebalance = wrapped
        for act in ep["actions"]:
            now = secs(env.now())
            denoted = cfg["menu"][act] if cfg.get("menu") is not None else act
            rec.ops.append({"op": "submit", "alloc": {n: rat(v) for n, v in denoted.items() if v != 0}, "t": now})
            rec.pending_quotes = []
            arg = int(act) if cfg.get("menu") is not None else np.array([float(act[n]) for n in cfg["names"]])
            out, val = impl.classify(lambda: env.step(arg))
            if out != "ok":
                rec.ops.append({"op": "abort", "out": out, "error": repr(val)[:200]})
                return rec.ops
            _, reward, done, _info = val
            nxt = secs(env.now())
            for q in rec.pending_quotes:
                q["next"] = nxt
            line = {"op": "step", "reward": rat(reward), "done": bool(done), "entries": len(env.broker.track_record), "t": nxt,
                    "last": last_idx}
            line.update(rec.account())
            rec.ops.append(line)
            if done:
                break
    return rec.ops


def record(n, seed, tier):
    rnd = random.Random(seed * 7919 + 17)
    out = []
    for _ in range(n):
        cfg = gen_config(rnd, tier)
        ops = run_env(cfg)
        out.append({"cfg": cfg, "ops": ops})
    return out


def _batch(rep, group, clauses, tag):
    """TLC validates one batch of traces sharing a contract set and a fee schedule"""
    names, fees = group[0]["cfg"]["names"], group[0]["cfg"]["fees"]
    traces = [{"ops": g["ops"], "latency": g["cfg"]["lat"], "delay": g["cfg"]["delay"], "steps": g["cfg"]["steps"], "prevs": g["cfg"]["prevs"],
               "null": {n: rat(v) for n, v in (g["cfg"]["menu"][0] if g["cfg"].get("menu") else {}).items() if v != 0}} for g in group]
    wd = tlc.new_workdir(rep.prop + "-eltrace")
    path = os.path.join(wd, "traces.json")
    with open(path, "w") as f:
        json.dump(traces, f)
    expected = sum(len(t["ops"]) + 1 for t in traces)
    cs = {c: CONTRACTS[c] for c in names}
    fixed, prop = FEES[fees]
    defs = {"C": set(names), "Mult": {c: cs[c]["mult"] for c in names}, "CashReq": {c: cs[c]["cashreq"] for c in names},
            "Mr": {c: cs[c]["mr"] for c in names}, "Fixed": fixed, "Prop": prop, "Deposit": F(DEPOSIT), "Rate": F(0),
            "Markup": F(0), "RatePath": [], "Epsilon": F(0), "Clauses": set(clauses)}
    module = tlagen.mc_module("MCEL", "EnvLedgerTrace", defs)
    cfg = tlagen.cfg(defs, {"RefRule": "carry", "SpotMult": "applied", "SubLot": "skip", "ExpectedStates": expected},
                     invariants=["Accepted"], postcondition="AllConsumed")
    try:
        res = tlc.run("MCEL", module, cfg, workers=1, env={"TRACE_FILE": path}, tag=rep.prop + "-eltracev", timeout=1800)
    finally:
        tlc.rm_workdir(wd)
    try:
        rep.add_model("env-ledger traces %s/%s (recorded)" % ("+".join(names), fees), res, ["Accepted"], [])
        if res.violated:
            tr = tlaval.parse_trace(res.trace or "")
            lastst = tr[-1][1] if tr else {}
            tid, l = lastst.get("tid"), lastst.get("l")
            verdict = list(lastst.get("verdict") or [])
            g = group[tid - 1] if tid else group[0]
            ops = g["ops"][: (l or 1) - 1]
            last = ops[-1] if ops else {}
            clause = verdict[0] if verdict else "nlv"
            c = g["cfg"]
            rep.violation("envledger_" + clause,
                          "envtrace/%s/%s/%s" % (clause, last.get("op", "?"), "lat" if c["lat"] else "nolat"),
                          "recorded execution of the real TradingEnv rejected by EnvLedgerTrace.tla: trace %s line %s, clause(s) %s "
                          "(contracts %s, latency %s, delay %s, fees %s, fractional %s); logged line %s"
                          % (tid, (l or 1) - 1, verdict, names, c["lat"], c["delay"], fees, c["fractional"],
                             {k: v for k, v in last.items()}),
                          {"kind": "env-ledger-trace", "cfg": _plain(c), "ops": ops[-12:]})
        else:
            if "AllConsumed" in res.stdout and "violated" in res.stdout.lower() and "postcondition" in res.stdout.lower():
                raise tlc.TLCFailure("env-ledger trace batch not fully consumed")
            rep.traces += len(traces)
            rep.evaluations += expected - len(traces)
            rep.count("env_ledger_traces_accepted", len(traces))
            rep.count("env_ledger_lines", expected - len(traces))
    finally:
        tlc.rm_workdir(res.workdir)


def _plain(x):
    if isinstance(x, F):
        return str(x)
    if isinstance(x, dict):
        return {k: _plain(v) for k, v in x.items()}
    if isinstance(x, (list, tuple)):
        return [_plain(v) for v in x]
    return x


def validate(rep, prop, n, seed, tier, recs=None, clauses=None):
    """record n long executions of the real TradingEnv and let TLC validate them; clauses owned by `prop` are reported"""
    clauses = clauses_of(prop) if clauses is None else clauses
    recs = record(n, seed, tier) if recs is None else recs
    # a step that raised ends its trace with an `abort` line: TLC decides whether the specification fails there too
    groups = {}
    for r in recs:
        groups.setdefault((tuple(r["cfg"]["names"]), r["cfg"]["fees"]), []).append(r)
    for key in sorted(groups):
        _batch(rep, groups[key], clauses, "-".join(key[0]))
    rep.count("env_ledger_groups", len(groups))
    if recs:
        ops = recs[0]["ops"]
        rep.sample({"env_ledger_trace": {"contracts": recs[0]["cfg"]["names"], "lines": len(ops),
                                         "first": [{k: v for k, v in o.items() if k in ("op", "c", "x", "t", "alloc", "nlv", "reward")}
                                                   for o in ops[:5]]}})
