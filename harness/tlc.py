"""Run TLC on a generated MC module and collect what it found.

A model is (module text, cfg text).  Both are written to a scratch work
directory under /verif/out/work/<run>/ which is removed by the caller when the
run is over.  The static specification modules live in /verif/spec and are
found through -DTLA-Library.
"""
import os
import re
import shutil
import subprocess
import time
import uuid

ROOT = os.path.dirname(os.path.dirname(os.path.abspath(__file__)))
SPEC_DIR = os.path.join(ROOT, "spec")
WORK_ROOT = os.path.join(ROOT, "out", "work")
JAR = "/opt/veriftools/tla/tla2tools.jar:/opt/veriftools/tla/CommunityModules-deps.jar"


class TLCFailure(Exception):
    """TLC itself failed (parse error, overflow, evaluation error): machinery failure, exit 2."""


def new_workdir(tag):
    d = os.path.join(WORK_ROOT, "%s-%s" % (tag, uuid.uuid4().hex[:8]))
    os.makedirs(d, exist_ok=True)
    return d


def rm_workdir(d):
    if d and d.startswith(WORK_ROOT) and os.path.isdir(d):
        shutil.rmtree(d, ignore_errors=True)


class Result:
    def __init__(self):
        self.stdout = ""
        self.generated = 0
        self.distinct = 0
        self.depth = 0
        self.violated = None        # name of the invariant / property violated, if any
        self.violation_kind = None  # "invariant" | "action" | "deadlock" | "assert"
        self.trace = None           # textual error trace
        self.coverage = {}          # action name -> (distinct, generated)
        self.wall = 0.0
        self.workdir = None
        self.dump_path = None
        self.ok = False


_RE_STATS = re.compile(r"(\d+) states generated, (\d+) distinct states found")
_RE_DEPTH = re.compile(r"The depth of the complete state graph search is (\d+)")
_RE_INV = re.compile(r"Error: Invariant (\S+) is violated")
_RE_ACT = re.compile(r"Error: Action property (\S+) is violated")
_RE_COV = re.compile(r"^<(\w+) line \d+, col \d+ to line \d+, col \d+ of module (\w+)>: (\d+):(\d+)", re.M)


def run(module_name, module_text, cfg_text, workers=8, dump=False, simulate=None, depth=None,
        seed=None, coverage=False, timeout=3600, env=None, tag=None, heap="4g", cont=False,
        extra_files=None, keep=False):
    """Run TLC.  Returns Result.  Raises TLCFailure on machinery failure."""
    wd = new_workdir(tag or module_name)
    with open(os.path.join(wd, module_name + ".tla"), "w") as f:
        f.write(module_text)
    with open(os.path.join(wd, module_name + ".cfg"), "w") as f:
        f.write(cfg_text)
    for name, text in (extra_files or {}).items():
        with open(os.path.join(wd, name), "w") as f:
            f.write(text)
    cmd = ["java", "-XX:+UseSerialGC", "-Xmx" + heap, "-Xms1g", "-Xss16m",
           "-DTLA-Library=" + SPEC_DIR, "-cp", JAR, "tlc2.TLC",
           "-workers", str(workers), "-metadir", os.path.join(wd, "meta"),
           "-noGenerateSpecTE", "-nowarning"]
    res = Result()
    res.workdir = wd
    if dump:
        res.dump_path = os.path.join(wd, "states")
        cmd += ["-dump", res.dump_path]
        res.dump_path += ".dump"
    if simulate:
        cmd += ["-simulate", simulate]
    if depth:
        cmd += ["-depth", str(depth)]
    if seed is not None:
        cmd += ["-seed", str(seed)]
    if coverage:
        cmd += ["-coverage", "1"]
    if cont:
        cmd += ["-continue"]
    cmd += [module_name + ".tla"]
    e = dict(os.environ)
    e.update(env or {})
    t0 = time.time()
    try:
        p = subprocess.run(cmd, cwd=wd, stdout=subprocess.PIPE, stderr=subprocess.STDOUT,
                           timeout=timeout, env=e, text=True)
    except subprocess.TimeoutExpired as ex:
        if not keep:
            rm_workdir(wd)
        raise TLCFailure("TLC timed out after %ss on %s" % (timeout, module_name)) from ex
    res.wall = time.time() - t0
    out = p.stdout
    res.stdout = out
    m = None
    for m in _RE_STATS.finditer(out):
        pass
    if m:
        res.generated, res.distinct = int(m.group(1)), int(m.group(2))
    m = _RE_DEPTH.search(out)
    if m:
        res.depth = int(m.group(1))
    for m in _RE_COV.finditer(out):
        name = m.group(1)
        g, d = int(m.group(3)), int(m.group(4))
        a = res.coverage.get(name, (0, 0))
        res.coverage[name] = (a[0] + g, a[1] + d)
    mi = _RE_INV.search(out)
    ma = _RE_ACT.search(out)
    if mi:
        res.violated, res.violation_kind = mi.group(1), "invariant"
    elif ma:
        res.violated, res.violation_kind = ma.group(1), "action"
    elif "Error: Deadlock reached" in out:
        res.violated, res.violation_kind = "Deadlock", "deadlock"
    if res.violated:
        i = out.find("Error:")
        res.trace = out[i:i + 4000000]
        return res
    if simulate:
        # simulation mode ends by itself when num traces are generated
        if "Error:" in out and "Error: " in out:
            raise TLCFailure("TLC error in %s:\n%s" % (module_name, _err(out)))
        res.ok = True
        return res
    if "Model checking completed. No error has been found." in out:
        res.ok = True
        return res
    if not keep:
        rm_workdir(wd)
    raise TLCFailure("TLC error in %s (exit %s):\n%s" % (module_name, p.returncode, _err(out)))


def _err(out):
    i = out.find("Error:")
    if i < 0:
        return out[-3000:]
    s = out[i:i + 3000]
    # drop the long evaluation stack
    s = re.sub(r"(\n\d+\. Line .*)+", "\n   ...stack...", s)
    return s


def sany(path):
    p = subprocess.run(["java", "-DTLA-Library=" + SPEC_DIR, "-cp", JAR, "tla2sany.SANY", path],
                       stdout=subprocess.PIPE, stderr=subprocess.STDOUT, text=True,
                       cwd=os.path.dirname(path))
    bad = ("error" in p.stdout.lower() and "Semantic errors" in p.stdout) or "Fatal" in p.stdout \
        or "***Parse Error***" in p.stdout or "Could not find module" in p.stdout or p.returncode != 0
    return (not bad), p.stdout
