"""Spec -> code for EnvFull.tla: a real TradingEnv with a numeric account is driven through the calls of
a TLC-generated behaviour; positions, track-record entries, rewards, done flags and outcome classes
are compared after every call."""
import copy
import math
from datetime import datetime, timedelta
from fractions import Fraction

import numpy as np

from . import impl
from .impl import frac, close
from tradingenv.env import TradingEnv
from tradingenv.transmitter import Transmitter
from tradingenv.events import EventNBBO, EventContractDiscontinued
from tradingenv.contracts import ETF, ES, FutureChain, Rate, AbstractContract
from tradingenv.spaces import BoxPortfolio
from tradingenv.features import Feature
from tradingenv.broker.fees import BrokerFees
from tradingenv.broker.broker import EndOfEpisodeError
from tradingenv import rewards as R

CLAUSE_PROPS = {
    "entries": ["C07"], "stamp": ["C07"], "track_nlv": ["C07"], "track_trades": ["C07"], "track_costs": ["C07"],
    "reward": ["C07"], "compound": ["C07"], "pos": ["C07"], "frames": ["C07"], "track_holdings": ["C07"],
    "broke_traded": ["C09"], "ruin_step": ["C09"], "ended": ["C09"], "done": ["C09"], "signal": ["C09"],
    "roll": ["C11"], "expiry_hold": ["C11"], "env_interest": ["C06"],
    "clock_full": ["C02", "C04"],     # events stamped after the landing timestep were processed before the call returned
    "out": [],
}

LOG = dict(scale=0.05, clip=2.0, risk_aversion=0.25)


def T(base, t):
    return base + timedelta(seconds=int(t))


class Valuer(Feature):
    """a user feature that values the account whenever a quote arrives"""

    def __init__(self):
        Feature.__init__(self, name="verif-valuer", save=False)

    def process_EventNBBO(self, event):
        if self.broker is not None:
            try:
                self.broker.net_liquidation_value(False)
            except Exception:  # noqa: BLE001 - an unpriceable position: nothing to report
                pass


class WeightChanges(BoxPortfolio):
    """a user-defined space (the use case named in PortfolioSpace.make_rebalancing_request): an action is a CHANGE of the
    portfolio weights, so the allocation it denotes is read off the broker when the request is built"""

    def _make_allocation(self, action, broker=None):
        w = broker.holdings_weights()
        return [float(w.get(c, 0.0)) + float(a) for c, a in zip(self.contracts, action)]


class World:
    def __init__(self, model, cfg, reward_kind, wbounds=None):
        self.model = model
        self.cfg = cfg
        self.base = datetime(*model["base"])
        cs = {}
        for n, s in model["contracts"].items():
            if s.get("builtin") == "ETF":
                cs[n] = ETF(n)
            elif s.get("builtin") == "ES":
                cs[n] = ES(*s["ym"])
            else:
                cs[n] = impl.make_contract_class("Grid_" + n, s["mult"], s["cashreq"], float(s["mr"]))(n)
        self.contracts = cs
        self.chain = None
        space_contracts = []
        for k in model["space"]:
            if k == "CH":
                self.chain = FutureChain(contracts=[cs[n] for n in model["chain"]], month=int(model.get("chain_offset") or 0))
                space_contracts.append(self.chain)
            else:
                space_contracts.append(cs[k])
        self.space_keys = list(model["space"])
        self.rate = Rate("VERIF-RATE")
        tr = Transmitter([T(self.base, t) for t in cfg["grid"]])
        evs = []
        for e in cfg["events"]:
            if e["kind"] == "q":
                evs.append(EventNBBO(T(self.base, e["t"]), self.chain if e["c"] == "CH" else cs[e["c"]], float(e["bid"]), float(e["ask"])))
            else:
                evs.append(EventContractDiscontinued(T(self.base, e["t"]), cs[e["c"]]))
        if model.get("rate_path"):
            # the reference rate as a published series of mid prices (Transmitter.add_prices)
            import pandas as pd
            rp = model["rate_path"]
            tr.add_prices(pd.DataFrame({self.rate: [float(r) for _, r in rp]},
                                       index=pd.DatetimeIndex([T(self.base, y * model["yearlen"]) for y, _ in rp])))
        elif model["rate"] != 0:
            evs.append(EventNBBO(T(self.base, cfg["grid"][0]), self.rate, float(model["rate"]), float(model["rate"])))
        tr.add_events(evs)
        if (len(cfg["events"]) + cfg["delay"]) % 2 == 0:
            # every other case: the Transmitter first served another environment configured with a different latency
            # (the environment under test is a function of its own configuration only)
            from tradingenv.contracts import ETF as _ETF
            other = 0.0 if cfg["lat"] else float(min(b - a for a, b in zip(cfg["grid"], cfg["grid"][1:]))) / 2.0
            TradingEnv(action_space=BoxPortfolio([_ETF("VERIF-OTHER")], low=0.0, high=1.0), transmitter=tr, latency=other)
        # contracts' own discontinuation events are added by TradingEnv (Future.make_events); the model lists them too
        self.own_disc = any(s.get("builtin") == "ES" for s in model["contracts"].values())
        fees = BrokerFees(markup=float(model["markup"]), interest_rate=self.rate, proportional=float(model["prop"]),
                          fixed=float(model["fixed"]))
        self.reward_kind = reward_kind
        reward = {"simple": R.RewardSimpleReturn(), "log": R.LogReturn(**LOG), "pnl": R.RewardPnL(),
                  "logret": R.RewardLogReturn()}[reward_kind]
        # every other case a user feature values the account on every quote (a valuation marks the account to market; it is
        # neutral for everything a property speaks of)
        kw = {"state": [Valuer()]} if (len(cfg["events"]) + cfg["lat"] + cfg["delay"]) % 2 == 1 else {}
        wfeat = None
        if wbounds is not None:
            # the library's portfolio-weight feature with its default transformer, fitted on this environment's own bounds
            from tradingenv.library import FeaturePortfolioWeight
            wfeat = FeaturePortfolioWeight(space_contracts, -float(wbounds), float(wbounds))
            kw = {"state": list(kw.get("state", [])) + [wfeat]}
        space_cls = WeightChanges if model.get("relative") else BoxPortfolio
        self.menu = bool(model.get("menu")) and not model.get("relative") and float(model["thr"]) == 0.0
        if self.menu:
            from tradingenv.spaces import DiscretePortfolio
            space = DiscretePortfolio(space_contracts, [[float(t[k]) if k in t else 0.0 for k in self.space_keys] for t in model["targets"]],
                                      as_weights=model.get("measure", "weight") == "weight", fractional=bool(model.get("fractional", True)))
        else:
            space = space_cls(space_contracts, low=-4.0, high=4.0, margin=float(model["thr"]),
                              fractional=bool(model.get("fractional", True)),
                              as_weights=model.get("measure", "weight") == "weight")
        self.env = TradingEnv(action_space=space,
                              reward=reward, transmitter=tr, broker_fees=fees, latency=cfg["lat"],
                              steps_delay=cfg["delay"], initial_cash=float(model["deposit"]), **kw)
        if wfeat is not None:
            wfeat.fit_transformer()
        self.rewards = []
        self.nlv0 = None

    def action(self, tgt):
        tgt = tgt if isinstance(tgt, dict) else {}
        if getattr(self, "menu", False):
            from .impl import frac
            key = {k: frac(v) for k, v in tgt.items()}
            for i, t in enumerate(self.model["targets"]):
                if {k: Fraction(v) for k, v in t.items()} == key:
                    return i
            raise KeyError("target %r is not an entry of the menu" % (tgt,))
        return np.array([impl.fl(tgt[k]) if k in tgt else 0.0 for k in self.space_keys])

    def pos(self):
        q = self.env.broker.holdings_quantity
        return {n: float(q.get(c, 0.0)) for n, c in self.contracts.items()}


def expected_reward(kind, nlv, pre):
    nlv, pre = float(nlv), float(pre)
    if kind == "simple":
        return nlv / pre - 1
    if kind == "pnl":
        return nlv - pre
    if kind == "logret":
        return math.log(nlv / pre)
    r = math.log(nlv / pre) / LOG["scale"]
    r = max(-LOG["clip"], min(LOG["clip"], r))
    if r < 0:
        r *= 1 + LOG["risk_aversion"]
    return r


def compare_step(w, rec, out, val, before):
    fails = []
    env = w.env
    exp_out = rec["out"]
    tr = env.broker.track_record
    # ---- outcome class
    if out != exp_out:
        if exp_out == "ok" and out == "broke":
            where = "pre" if rec["stamp"] == -1 else "market_events"
            fails.append(("ruin_step", "the step in which NLV reaches %s raised EndOfEpisodeError instead of returning done "
                          "(insolvent %s)" % (frac(rec["nlv"]), "before the decision" if where == "pre" else "during the step's market events"),
                          where))
        elif exp_out == "ended":
            fails.append(("ended", "step after the end of the episode was not refused: %s" % out, ""))
        elif exp_out == "broke" and out == "ok":
            fails.append(("out", "step returned although the specification (pinned rule) raises", ""))
        elif exp_out == "ok" and out == "error" and isinstance(rec.get("target"), dict) and "CH" in rec["target"]:
            fails.append(("roll", "a decision targeting the chain could not be executed (%r): the specification trades the lead contract "
                                  "at its prevailing quotes" % (val,), ""))
        else:
            fails.append(("out", "step outcome %s (%r), spec %s" % (out, val, exp_out), ""))
    # ---- a decision of an insolvent account executes nothing
    n_entries = len(tr)
    # (a rebalance that starts solvent and is made insolvent by its own trading costs has traded: rec["traded"])
    if rec["stamp"] == -1 and not rec.get("traded") and exp_out in ("ok", "broke"):
        if n_entries != before["entries"] or w.pos() != before["pos"]:
            fails.append(("broke_traded", "an account with NLV <= 0 traded: positions %s -> %s, track record %d -> %d entries" % (
                before["pos"], w.pos(), before["entries"], n_entries), ""))
    if fails:
        return fails
    if out in ("ended", "error"):
        return fails
    # ---- positions
    pos = w.pos()
    for n, v in pos.items():
        if not close(v, frac(rec["pos"][n]), 1e-9):
            clause = "roll" if n in (w.model.get("chain") or []) else "pos"
            fails.append((clause, "position %s = %r after the step, spec %s" % (n, v, frac(rec["pos"][n])), ""))
    # ---- track record
    if n_entries != rec["entries"]:
        fails.append(("entries", "track record has %d entries, %d decisions were executed" % (n_entries, rec["entries"]), ""))
    elif rec["stamp"] != -1 and n_entries > 0:
        e = tr[-1]
        stamp = e.time.to_pydatetime() if hasattr(e.time, "to_pydatetime") else e.time
        if stamp != T(w.base, rec["stamp"]):
            fails.append(("stamp", "entry stamped %s, latest event processed before the execution %s" % (stamp, T(w.base, rec["stamp"])), ""))
        # the frame accessors are read DURING the episode too (monitoring, rendering): after every executed decision they
        # have one row per entry and the last row is this entry
        of, dfm = impl.classify(lambda: tr.net_liquidation_value())
        if of != "ok" or len(dfm) != n_entries or not close(float(dfm.iloc[-1, 0]), frac(rec["pre"])):
            fails.append(("frames", "mid-episode TrackRecord.net_liquidation_value(): %r rows / last %r for %d entries, last pre-trade NLV %s" % (
                len(dfm) if of == "ok" else dfm, float(dfm.iloc[-1, 0]) if of == "ok" and len(dfm) else None, n_entries, frac(rec["pre"])), ""))
        if not close(e.context_pre.nlv, frac(rec["pre"])) or not close(e.context_post.nlv, frac(rec["post"])):
            fails.append(("track_nlv", "entry reports pre/post NLV %r / %r, independent ledger %s / %s" % (
                e.context_pre.nlv, e.context_post.nlv, frac(rec["pre"]), frac(rec["post"])), ""))
        got = {}
        for t in e.trades:
            got[t.contract.symbol] = got.get(t.contract.symbol, 0.0) + t.quantity
        sym = {n: c.symbol for n, c in w.contracts.items()}
        exp_tr = {sym[n]: frac(v) for n, v in (rec["trades"] if isinstance(rec["trades"], dict) else {}).items()}
        nlv0 = max(1.0, abs(float(e.context_pre.nlv)))
        got = {c: q for c, q in got.items() if abs(q) * 1.0 > 1e-9 * nlv0 / 1e3}
        if set(got) != set(exp_tr) or any(not close(got[c], exp_tr[c], 1e-8) for c in got):
            fails.append(("track_trades", "entry lists trades %s, spec %s" % (got, {k: str(v) for k, v in exp_tr.items()}), ""))
        snap = rec.get("snap")
        if isinstance(snap, dict):
            # the holdings, cash and margins the entry reports are the ones the account had at those two moments
            for tag, ctx in (("pre", e.context_pre), ("post", e.context_post)):
                for n, c in w.contracts.items():
                    q = float(ctx.nr_contracts.get(c, 0.0))
                    if not close(q, frac(snap[tag + "pos"][n]), 1e-9):
                        fails.append(("track_holdings", "entry reports %s-trade holding %s = %r, the account had %s" % (tag, n, q, frac(snap[tag + "pos"][n])), ""))
                    mg = float(ctx.margins.get(c, 0.0))
                    if not close(mg, frac(snap[tag + "mrg"][n]), 1e-9):
                        fails.append(("track_holdings", "entry reports %s-trade margin %s = %r, the account had %s" % (tag, n, mg, frac(snap[tag + "mrg"][n])), ""))
                cash = float(ctx.nr_contracts.get(w.env.broker.base_currency, 0.0))
                if not close(cash, frac(snap[tag + "cash"]), 1e-9):
                    fails.append(("track_holdings", "entry reports %s-trade cash %r, the account had %s" % (tag, cash, frac(snap[tag + "cash"])), ""))
                nl = float(ctx.nlv)
                for n, c in w.contracts.items():
                    wt = float(ctx.weights.get(c, 0.0))
                    vv = float(ctx.values.get(c, 0.0))
                    if abs(wt * nl - vv) > 1e-9 * max(1.0, abs(vv)):
                        fails.append(("track_holdings", "entry reports %s-trade weight %s = %r but value / NLV = %r" % (tag, n, wt, vv / nl if nl else None), ""))
        comm = sum(t.cost_of_commissions for t in e.trades)
        sp = sum(t.cost_of_spread for t in e.trades)
        if "spread" in rec and not close(sp, frac(rec["spread"])):
            fails.append(("track_costs", "entry reports a spread cost of %r, |quantity| x multiplier x (ask - bid) over its trades is %s" % (
                sp, frac(rec["spread"])), ""))
        if not close(e.profit_on_idle_cash, frac(rec["interest"])):
            fails.append(("env_interest", "interest credited for the period before this execution %r, the published rate gives %s" % (
                e.profit_on_idle_cash, frac(rec["interest"])), ""))
        if not close(comm, frac(rec["comm"])) or not close(e.profit_on_idle_cash, frac(rec["interest"])):
            fails.append(("track_costs", "entry reports commissions %r and interest %r, spec %s and %s" % (
                comm, e.profit_on_idle_cash, frac(rec["comm"]), frac(rec["interest"])), ""))
    # ---- the clock after the call: the stamp of the latest event delivered by the time the call returns (nothing stamped
    # later than the timestep the call lands on has been processed, whether the episode goes on or has just ended)
    if out == "ok" and rec.get("now") is not None and rec["now"] >= 0:
        got_now = int(round((env.now() - w.base).total_seconds()))
        if got_now != rec["now"]:
            fails.append(("clock_full", "after the call env.now() is %s (%d s), the latest event the specification has delivered is "
                                        "stamped %d s" % (env.now(), got_now, rec["now"]), ""))
    # ---- return value: done flag and reward
    if out == "ok":
        done = bool(val[2])
        if done != bool(rec["done"]):
            fails.append(("done", "step returned done=%s, spec %s" % (done, rec["done"]), ""))
        if frac(rec["pre"]) is not None and frac(rec["nlv"]) is not None and frac(rec["nlv"]) > 0:
            er = expected_reward(w.reward_kind, frac(rec["nlv"]), frac(rec["pre"]))
            if abs(float(val[1]) - er) > 1e-9 * max(1.0, abs(er)):
                fails.append(("reward", "%s reward %r, defined value %r (NLV %s over pre-trade NLV %s)" % (
                    w.reward_kind, val[1], er, frac(rec["nlv"]), frac(rec["pre"])), ""))
            w.rewards.append(float(val[1]))
            for kind, cls in (("simple", R.RewardSimpleReturn), ("pnl", R.RewardPnL), ("log", None), ("logret", R.RewardLogReturn)):
                if kind == w.reward_kind:
                    continue
                obj = R.LogReturn(**LOG) if kind == "log" else cls()
                o2, v2 = impl.classify(lambda: obj.calculate(env))
                er2 = expected_reward(kind, frac(rec["nlv"]), frac(rec["pre"]))
                if o2 != "ok" or abs(float(v2) - er2) > 1e-9 * max(1.0, abs(er2)):
                    fails.append(("reward", "%s reward computes %r, defined value %r" % (kind, v2, er2), ""))
    # ---- valuation signals
    b = copy.deepcopy(env.broker)
    o3, v3 = impl.classify(lambda: b.net_liquidation_value(False))
    if frac(rec["nlv"]) is not None:
        if o3 != "ok" or not close(v3, frac(rec["nlv"])):
            fails.append(("signal", "NLV (raise_if_broke=False) = %r, independent ledger %s" % (v3, frac(rec["nlv"])), ""))
        b2 = copy.deepcopy(env.broker)
        o4, v4 = impl.classify(lambda: b2.net_liquidation_value())
        want = "broke" if frac(rec["nlv"]) <= 0 else "ok"
        if o4 != want:
            fails.append(("signal", "valuation with NLV %s: outcome %s, must %s" % (
                frac(rec["nlv"]), o4, "signal end of episode" if want == "broke" else "return it"), ""))
    return fails


def end_of_episode(w, hist):
    """frames derived from the track record and compounding of simple returns"""
    fails = []
    tr = w.env.broker.track_record
    if len(tr) == 0:
        return fails
    o, df = impl.classify(lambda: tr.net_liquidation_value(before_rebalancing=True))
    o2, df2 = impl.classify(lambda: tr.net_liquidation_value(before_rebalancing=False))
    steps = [r for r in hist if r["call"] == "step" and r["stamp"] != -1 and r["out"] in ("ok", "broke")]
    if o != "ok" or o2 != "ok" or len(df) != len(steps):
        fails.append(("frames", "TrackRecord.net_liquidation_value has %s rows for %d executed decisions" % (
            len(df) if o == "ok" else df, len(steps)), ""))
    else:
        for i, r in enumerate(steps):
            if not close(float(df.iloc[i, 0]), frac(r["pre"])) or not close(float(df2.iloc[i, 0]), frac(r["post"])):
                fails.append(("frames", "TrackRecord.net_liquidation_value row %d = %r / %r, spec %s / %s" % (
                    i, df.iloc[i, 0], df2.iloc[i, 0], frac(r["pre"]), frac(r["post"])), ""))
                break
        o5, tc = impl.classify(lambda: tr.transaction_costs(cumulative=True))
        if o5 == "ok":
            fee = sum(frac(r["comm"]) for r in steps)
            intr = sum(frac(r["interest"]) for r in steps)
            sprd = sum(frac(r["spread"]) for r in steps if "spread" in r)
            if all("spread" in r for r in steps) and not close(float(tc["Spread"].iloc[-1]), sprd):
                fails.append(("frames", "transaction_costs spread total %r, spec %s" % (tc["Spread"].iloc[-1], sprd), ""))
            if not close(float(tc["Broker fees"].iloc[-1]), fee) or not close(float(tc["Profit on idle Cash"].iloc[-1]), intr):
                fails.append(("frames", "transaction_costs totals %r / %r, spec fees %s interest %s" % (
                    tc["Broker fees"].iloc[-1], tc["Profit on idle Cash"].iloc[-1], fee, intr), ""))
        else:
            fails.append(("frames", "transaction_costs failed: %r" % (tc,), ""))
        # per-row costs (cumulative=False), the entries addressed by position and by stamp, and the burn-in option: the
        # rows it keeps are rows of the full frame (same stamps, same values) and it drops exactly the leading entries
        # that traded nothing
        o8, tcr = impl.classify(lambda: tr.transaction_costs(cumulative=False))
        if o8 == "ok" and len(tcr) == len(steps):
            for i, r in enumerate(steps):
                if not close(float(tcr["Broker fees"].iloc[i]), frac(r["comm"])) or \
                        not close(float(tcr["Profit on idle Cash"].iloc[i]), frac(r["interest"])):
                    fails.append(("frames", "transaction_costs(cumulative=False) row %d = fees %r interest %r, spec %s / %s" % (
                        i, tcr["Broker fees"].iloc[i], tcr["Profit on idle Cash"].iloc[i], frac(r["comm"]), frac(r["interest"])), ""))
                    break
        elif o8 != "ok" or len(tcr) != len(steps):
            fails.append(("frames", "transaction_costs(cumulative=False): %r rows for %d executed decisions" % (
                len(tcr) if o8 == "ok" else tcr, len(steps)), ""))
        for i in range(len(steps)):
            e_i = tr[i]
            if tr[e_i.time] is not e_i or (i and not tr[i - 1].time < e_i.time):
                fails.append(("frames", "TrackRecord[%d] and TrackRecord[its stamp] are different entries, or stamps not increasing" % i, ""))
                break
        # a copy of the record (deepcopy, pickle round trip as in TrackRecord.save / load) reports the same costs and values
        import pickle
        for how, mk in (("deepcopy", lambda: copy.deepcopy(tr)), ("pickle", lambda: pickle.loads(pickle.dumps(tr)))):
            oc, tr2 = impl.classify(mk)
            if oc != "ok":
                continue                      # not every harness object pickles; nothing is claimed then
            oc2, tc2 = impl.classify(lambda: tr2.transaction_costs(cumulative=False))
            if o8 == "ok" and (oc2 != "ok" or len(tc2) != len(tcr) or any(
                    not close(float(tc2[c].iloc[i]), float(tcr[c].iloc[i])) for c in ("Broker fees", "Spread", "Profit on idle Cash")
                    for i in range(len(tcr)))):
                fails.append(("frames", "a %s copy of the track record reports other costs than the record itself: %r vs %r" % (
                    how, tc2.values.tolist() if oc2 == "ok" else tc2, tcr.values.tolist()), ""))
                break
        lead = 0
        for i in range(len(steps)):
            if len(tr[i].trades) == 0:
                lead += 1
            else:
                break
        o9, dfb = impl.classify(lambda: tr.net_liquidation_value(before_rebalancing=True, burn=True))
        if o9 != "ok" or len(dfb) != len(steps) - lead or \
                any(dfb.index[k] != df.index[lead + k] or not close(float(dfb.iloc[k, 0]), frac(steps[lead + k]["pre"])) for k in range(len(dfb))):
            fails.append(("frames", "net_liquidation_value(burn=True) = %r rows after %d leading entries without trades of %d; "
                                    "its rows must be the remaining rows of the full frame" % (len(dfb) if o9 == "ok" else dfb, lead, len(steps)), ""))
    # weight frames: one row per executed decision; the target row is the allocation that was executed (chain keys resolved to
    # the contract traded), the actual rows are the weights of the account just before / after trading
    if not fails and steps and len(tr) == len(steps):
        o6, wt = impl.classify(lambda: tr.weights_target())
        o7, wa = impl.classify(lambda: tr.weights_actual(before_rebalancing=False))
        if o6 != "ok" or o7 != "ok" or len(wt) != len(steps) or len(wa) != len(steps):
            fails.append(("frames", "TrackRecord.weights_target / weights_actual: %r / %r rows for %d executed decisions" % (
                len(wt) if o6 == "ok" else wt, len(wa) if o7 == "ok" else wa, len(steps)), ""))
        else:
            for i, r in enumerate(steps):
                ex = r["exec"] if isinstance(r["exec"], dict) else {}
                if w.model.get("measure", "weight") != "weight" or w.model.get("relative"):
                    break
                for n, c in w.contracts.items():
                    if c in wt.columns:
                        g = float(wt.iloc[i][c])
                        e = float(frac(ex[n])) if n in ex else 0.0
                        if not (g != g and n not in ex) and abs((0.0 if g != g else g) - e) > 1e-6 * max(1.0, abs(e)):
                            fails.append(("frames", "weights_target row %d, %s = %r, executed allocation %s" % (i, n, g, ex.get(n)), ""))
                            break
                post = tr[i].context_post
                for n, c in w.contracts.items():
                    if c in wa.columns:
                        g = float(wa.iloc[i][c])
                        e = float(post.weights.get(c, 0.0))
                        if abs((0.0 if g != g else g) - e) > 1e-6 * max(1.0, abs(e)):
                            fails.append(("frames", "weights_actual row %d, %s = %r, the entry's post-trade weight is %r" % (i, n, g, e), ""))
                            break
    # compounding: no interest, no latency, simple returns
    if w.reward_kind == "simple" and w.cfg["lat"] == 0 and w.model["rate"] == 0 and w.model["markup"] == 0:
        oks = [r for r in hist if r["call"] == "step" and r["out"] == "ok"]
        if oks and all(r["stamp"] != -1 for r in oks) and len(w.rewards) == len(oks) and frac(oks[-1]["nlv"]) is not None:
            prod = 1.0
            for x in w.rewards:
                prod *= 1 + x
            first_pre = frac(oks[0]["pre"])
            exp = float(frac(oks[-1]["nlv"]) / first_pre)
            if abs(prod - exp) > 1e-9 * max(1.0, abs(exp)):
                fails.append(("compound", "simple returns compound to %r, final NLV / initial NLV = %r" % (prod, exp), ""))
    return fails


def _pow2(d):
    return d > 0 and (d & (d - 1)) == 0


def float_exact(hist):
    """every position so far is a dyadic rational: binary floating point reproduces the account exactly"""
    for r in hist:
        for v in r["pos"].values():
            if not _pow2(v[1]):
                return False
    return True


def run_case(model, cfg, hist, reward_kind, owned=None):
    saved = AbstractContract.now
    try:
        w = World(model, cfg, reward_kind)
        fails = []
        n = 0
        for i, rec in enumerate(hist):
            n += 1
            if rec["call"] == "reset":
                out, val = impl.classify(lambda: w.env.reset())
                if out != "ok":
                    fails.append((i, "out", "reset failed: %r" % (val,), ""))
                    break
                continue
            before = {"entries": len(w.env.broker.track_record), "pos": w.pos()}
            nl = frac(rec["nlv"])
            if nl is not None and nl == 0 and rec["out"] != "ended" and not float_exact(hist[: i + 1]):
                # NLV lands exactly on zero after non-dyadic arithmetic: floating point may fall on either
                # side of the boundary, both classes are acceptable and nothing further is compared
                break
            if rec.get("edge"):
                # an imbalance weight exactly equal to the threshold: binary floating point may decide either way
                break
            a = w.action(rec["target"])
            try:
                val = w.env.step(a)
                out = "ok"
            except EndOfEpisodeError as e:
                out, val = ("ended" if (w.env._done and rec["out"] == "ended") else "broke"), e
            except Exception as e:  # noqa: BLE001
                out, val = "error", e
            fs = compare_step(w, rec, out, val, before)
            if out == "broke" and rec["stamp"] == -1 and frac(rec["nlv"]) is not None and rec["out"] != "ended":
                # the decision arrived insolvent: it executed nothing and ended the episode (that this step raises instead of
                # returning done is the recorded finding); whatever the caller does next is refused until reset
                p0, e0, n0 = w.pos(), len(w.env.broker.track_record), w.env.now()
                try:
                    w.env.step(a)
                    o2 = "ok"
                except EndOfEpisodeError:
                    o2 = "ended"
                except Exception:  # noqa: BLE001
                    o2 = "error"
                # a refusal changes nothing: no trade, no entry, and no further market event is processed (the clock stands)
                if o2 == "ok" or w.pos() != p0 or len(w.env.broker.track_record) != e0 or w.env.now() != n0:
                    fs.append(("ended", "after the insolvent decision ended the episode a further step was not refused (outcome %s, "
                                        "positions %s -> %s, clock %s -> %s)" % (o2, p0, w.pos(), n0, w.env.now()), ""))
            for c, d, extra in fs:
                fails.append((i, c, d, extra))
            if out != rec["out"] or out != "ok" or (fs and (owned is None or any(f[0] in owned for f in fs))):
                break
        else:
            for c, d, extra in end_of_episode(w, hist):
                fails.append((len(hist) - 1, c, d, extra))
        return fails, n
    finally:
        AbstractContract.now = saved
