"""./check selftest  -  demonstrates that the machinery can fail:
 (1) negative controls: every named deviation of the pinned code (RefRule, SpotMult, SubLot, ClockRule, HistoryOrder, NullRule,
     RuinStep, ClockScope) is put back into the specification and TLC must report the documented invariant violation
     (an invariant that cannot fail in the bounded model proves nothing);
 (2) binding: one field of a recorded implementation trace is corrupted and TLC must reject the trace naming the clause.
Writes /verif/out/selftest.json; not part of the per-property commands."""
import json
import os
from fractions import Fraction as F

from . import tlc, tlagen, core


def _expect_violation(name, module, cfg, expected, results, workers=8, env=None):
    res = tlc.run("MC" if "MODULE MCT" not in module else "MCT", module, cfg, workers=workers, tag="selftest-" + name, env=env, timeout=1800)
    tlc.rm_workdir(res.workdir)
    ok = res.violated in expected
    results.append({"control": name, "expected_one_of": sorted(expected), "tlc_reported": res.violated, "ok": ok,
                    "states": res.distinct})
    print("%-28s %s (TLC: %s)" % (name, "ok" if ok else "FAILED", res.violated))
    return ok


def run():
    from . import props_broker, props_env, envfull_check, pair_check, broker_check
    from .broker_check import model, req
    results = []
    allok = True
    inv = ["SelfFinancing", "NlvDecomposition", "MarginInv"]
    m = model("nc-refrule", ["S5", "F5"], props_broker.BASE_OPS, 4, fees="paid", refrule="exec_only", invariants=inv,
              properties=["TradeDelta"])
    allok &= _expect_violation("RefRule=exec_only", m["module"], m["cfg"], {"SelfFinancing", "TradeDelta"}, results)
    m = model("nc-spotmult", ["S5", "F5"], props_broker.BASE_OPS, 4, fees="paid", spotmult="omitted", invariants=inv)
    allok &= _expect_violation("SpotMult=omitted", m["module"], m["cfg"], {"SelfFinancing", "NlvDecomposition"}, results)
    m = model("nc-sublot", ["S1", "H2"], ["quote", "rebal"], 3, fees="free", bids=(8,), spreads=(0,), sublot="raise",
              reqs=[req({"S1": F(1, 64), "H2": F(-1, 64)}, fractional=False)], invariants=["NoSpuriousFailure"])
    allok &= _expect_violation("SubLot=raise", m["module"], m["cfg"], {"NoSpuriousFailure"}, results)
    m = props_env.c04_models("quick", clock="before_newdate")[0]
    allok &= _expect_violation("ClockRule=before_newdate", m["module"], m["cfg"], {"ClockIsLatest", "InOrder", "ExactlyOnce"}, results)
    m = props_env.c04_models("quick", order="latent_first")[0]
    allok &= _expect_violation("HistoryOrder=latent_first", m["module"], m["cfg"], {"InOrder", "ClockIsLatest"}, results)
    m = props_env.c08_models("quick", null="float")[0]
    allok &= _expect_violation("NullRule=float", m["module"], m["cfg"], {"NullActionExecutes", "FifoDelay"}, results)
    m = envfull_check.c09_models("quick", ruin="raise")[0]
    allok &= _expect_violation("RuinStep=raise", m["module"], m["cfg"], {"RuinStepReturnsDone"}, results, workers=4)
    m = pair_check.pair_models("quick", clockscope="process")[0]
    allok &= _expect_violation("ClockScope=process", m["module"], m["cfg"], {"IsolatedOutputs", "IsolatedState"}, results)

    # ---- binding: corrupt one logged field of a recorded trace
    from . import exchange_check, broker_trace
    traces = exchange_check.record_traces(20, 15, 5)
    for field in ("bid", "alive", "nh"):
        bad = json.loads(json.dumps(traces))
        line = bad[7]["ops"][9]
        line["view"]["A"][field] = line["view"]["A"][field] + 1
        rep = core.Report("selftest", "quick", 0)
        exchange_check.validate_traces(rep, bad, name="corrupted-" + field)
        ok = any(v["clause"] == "trace" for v in rep.violations)
        results.append({"control": "ExchangeTrace corrupted field " + field, "ok": ok,
                        "reported": [v["detail"] for v in rep.violations][:1]})
        print("%-28s %s" % ("ExchangeTrace/" + field, "ok" if ok else "FAILED"))
        allok &= ok
    py = model("x", ["S5", "F5", "G1"], ["quote"], 1, fees="paid")["py"]
    base = broker_trace.record(py, 10, 15, 3)
    for field in ("nlv", "pos", "mrg"):
        bad = json.loads(json.dumps(base))
        # corrupt the last line of a trace that has the field populated
        done = False
        for t in bad:
            for line in t["ops"]:
                if field == "nlv" and line["nlv"] != [0, 0]:
                    line["nlv"] = [line["nlv"][0] + line["nlv"][1], line["nlv"][1]]
                    done = True
                elif field == "pos":
                    line["pos"]["F5"] = [line["pos"]["F5"][0] + line["pos"]["F5"][1], line["pos"]["F5"][1]]
                    done = True
                elif field == "mrg" and line["chk"]:
                    c = line["chk"][0]
                    line["mrg"][c] = [line["mrg"][c][0] + line["mrg"][c][1], line["mrg"][c][1]]
                    done = True
                if done:
                    break
            if done:
                break
        rep = core.Report("selftest", "quick", 0)
        _validate_given(rep, bad, {"nlv", "pos", "mrg", "out"})
        ok = any(field in v["key"] for v in rep.violations)
        results.append({"control": "BrokerTrace corrupted field " + field, "ok": ok, "reported": [v["key"] for v in rep.violations][:1]})
        print("%-28s %s" % ("BrokerTrace/" + field, "ok" if ok else "FAILED"))
        allok &= ok
    # ---- binding of EnvLedgerTrace.tla: one logged field of a recorded TradingEnv execution corrupted per clause
    from . import envledger_check as el
    base = el.record(2, 11, "quick")

    def bump(r):
        return [r[0] + r[1], r[1]]

    def corrupt(recs, clause):
        for t in recs:
            ops = t["ops"]
            for i, o in enumerate(ops):
                if clause == "nlv" and o["op"] == "quote" and i > 12:
                    o["nlv"] = bump(o["nlv"]); return True
                if o["op"] == "rebalance" and o["trades"]:
                    if clause in ("cash", "ctxpre", "ctxpost"):
                        o[clause] = bump(o[clause]); return True
                    if clause in ("pos", "mrg"):
                        c = sorted(o["trades"])[0]
                        o[clause][c] = bump(o[clause][c]); return True
                    if clause == "trades":
                        c = sorted(o["trades"])[0]
                        o["trades"][c] = bump(o["trades"][c]); return True
                if clause == "fifo" and o["op"] == "submit" and o["alloc"] and i > 12:
                    c = sorted(o["alloc"])[0]
                    o["alloc"][c] = bump(o["alloc"][c]); return True
                if clause == "stamp" and o["op"] == "quote" and i > 12:
                    o["t"] = o["t"] + 10 ** 6; return True
                if clause == "spurious" and o["op"] == "step" and i > 12:
                    ops.insert(i + 1, {"op": "abort", "out": "error", "error": "(inserted)"}); return True
                if o["op"] == "step" and i > 12:
                    if clause == "reward":
                        o["reward"] = bump(o["reward"]); return True
                    if clause == "entries":
                        o["entries"] += 1; return True
                    if clause == "done":
                        o["done"] = not o["done"]; return True
        return False
    for clause, named in (("nlv", "nlv"), ("pos", "pos"), ("mrg", "mrg"), ("cash", "cash"), ("trades", "trades"), ("ctxpre", "ctx"),
                          ("ctxpost", "ctx"), ("fifo", "fifo"), ("stamp", "stamp"), ("reward", "reward"), ("entries", "entries"),
                          ("done", "done"), ("spurious", "spurious")):
        bad = json.loads(json.dumps(base, default=str))
        for t, b in zip(bad, base):
            t["cfg"] = b["cfg"]
        assert corrupt(bad, clause), clause
        rep = core.Report("selftest", "quick", 0)
        el.validate(rep, "selftest", 0, 0, "quick", recs=bad, clauses=set(el.CLAUSE_PROPS))
        ok = any(v["clause"] == "envledger_" + named for v in rep.violations)
        results.append({"control": "EnvLedgerTrace corrupted field " + clause, "ok": ok, "reported": [v["key"] for v in rep.violations][:1]})
        print("%-28s %s" % ("EnvLedgerTrace/" + clause, "ok" if ok else "FAILED %s" % [v["key"] for v in rep.violations][:1]))
        allok &= ok
    os.makedirs(os.path.join(core.ROOT, "out"), exist_ok=True)
    with open(os.path.join(core.ROOT, "out", "selftest.json"), "w") as f:
        json.dump({"ok": bool(allok), "results": results}, f, indent=1)
    print("SELFTEST", "passed" if allok else "FAILED")
    return 0 if allok else 1


def _validate_given(rep, traces, clauses):
    """BrokerTrace validation of an already recorded (here: corrupted) batch"""
    from . import broker_trace
    orig = broker_trace.record
    broker_trace.record = lambda *a, **k: traces
    try:
        broker_trace.validate(rep, "corrupted", ["S5", "F5", "G1"], "paid", clauses, 0, 0, 0)
    finally:
        broker_trace.record = orig
