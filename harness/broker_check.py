"""Checks decided on Broker.tla: C01 C05 C13 C03 C12 (and the whole-year part of C06).

For each model of the property's family:
  1. TLC explores the model exhaustively (bounded depth), checking the property's invariants and
     action properties in every state / on every transition, and dumps every distinct state
     together with one operation history reaching it (variable `hist`, hidden from the fingerprint);
  2. every dumped history is replayed into a real tradingenv Broker + Exchange and the
     projection determined by the properties is compared after every operation (replay_broker).
"""
import multiprocessing as mp
import os
import random
import sys
from fractions import Fraction as F

from . import tlc, tlagen, tlaval, core
from .tlagen import Rec

CONTRACTS = {
    "S1": {"mult": 1, "cashreq": 1, "mr": F(0), "builtin": "ETF"},
    "S5": {"mult": 5, "cashreq": 1, "mr": F(0)},
    "F5": {"mult": 5, "cashreq": 0, "mr": F(1, 4)},
    "G1": {"mult": 1, "cashreq": 0, "mr": F(1, 2)},
    "H2": {"mult": 2, "cashreq": 0, "mr": F(1)},
    "F4": {"mult": 4, "cashreq": 0, "mr": F(1, 4)},
    "S2": {"mult": 2, "cashreq": 1, "mr": F(0)},
}

# "dy": a dyadic schedule for the exact-rational rebalancing models (denominators stay powers of two,
# so that TLC's 32-bit integers are not exceeded)
FEES = {"free": (F(0), F(0)), "paid": (F(1), F(1, 100)), "dy": (F(1), F(1, 16))}


def model(name, contracts, ops, depth, fees="paid", bids=(8, 12), spreads=(0, 2), dqs=(-2, -1, 1, 2),
          lots=(), reqs=(), steps=(1,), rate=F(0), markup=F(0), deposit=F(1000),
          refrule="carry", spotmult="applied", sublot="skip", invariants=(), properties=(), dyadic=False, maxrebal=99, maxclk=99, epsilon=F(0), dq_rats=None, all_paths=False):
    cs = {c: CONTRACTS[c] for c in contracts}
    fixed, prop = FEES[fees]
    defs = {
        "C": set(contracts),
        "Mult": {c: cs[c]["mult"] for c in contracts},
        "CashReq": {c: cs[c]["cashreq"] for c in contracts},
        "Mr": {c: cs[c]["mr"] for c in contracts},
        "Fixed": fixed, "Prop": prop, "Deposit": deposit, "Rate": rate, "RatePath": [], "Markup": markup, "Epsilon": epsilon,
        "Ops": set(ops), "Bids": set(bids), "Spreads": set(spreads), "DQs": {F(d) for d in dqs},
        "LotTargets": set(), "Reqs": set(), "Steps": set(steps),
    }
    # sets of functions / records need raw rendering (dicts are not hashable)
    defs["LotTargets"] = tlagen.Raw("{" + ", ".join(tlagen.tla(dict(t)) for t in lots) + "}")
    defs["Reqs"] = tlagen.Raw("{" + ", ".join(tlagen.tla(r) for r in reqs) + "}")
    plain = {"RefRule": refrule, "SpotMult": spotmult, "SubLot": sublot, "MaxDepth": depth, "MaxRebal": maxrebal, "MaxClk": maxclk}
    return {
        "name": name, "depth": depth,
        "module": tlagen.mc_module("MC", "Broker", defs),
        "cfg": tlagen.cfg(defs, plain, invariants=invariants, properties=properties, view=None if all_paths else "view"),
        "py": {"contracts": cs, "fixed": fixed, "prop": prop, "deposit": deposit, "rate": rate,
               "markup": markup, "dyadic": dyadic, "epsilon": epsilon},
        "invariants": list(invariants), "properties": list(properties),
    }


def req(alloc, measure="weight", thr=F(0), fractional=True, absolute=True):
    return Rec(alloc=dict(alloc), measure=measure, thr=thr, fractional=fractional, absolute=absolute)


# ---------------------------------------------------------------------------------- replay workers
_MODEL = None
_OWNED = None


def _init_worker(py_model, repo, owned=None):
    global _MODEL, _OWNED
    _MODEL = py_model
    _OWNED = owned
    if repo:
        os.environ["VERIF_REPO"] = repo


def _trade_kind(before, dq):
    new = before + dq
    if before == 0:
        return "open"
    if new == 0:
        return "close"
    if (before > 0) != (new > 0):
        return "flip"
    return "add" if abs(new) > abs(before) else "reduce"


def failure_key(model, ops, step, clause):
    """Classification of a failing transition: clause + operation + contract kind + what the
    operation did to the position.  Known findings are keyed by this."""
    op = ops[step]
    parts = [clause, op["op"]]
    c = op.get("c")
    if c in model["contracts"]:
        s = model["contracts"][c]
        parts.append("spot" if s["cashreq"] == 1 else "margined")
        parts.append("mult1" if s["mult"] == 1 else "multN")
    if op["op"] in ("trade", "tradeat"):
        pos = F(0)
        for o in ops[:step]:
            if o["op"] in ("trade", "tradeat") and o["c"] == c and o["out"] == "ok":
                pos += F(*o["x"])
            if o["op"] == "rebalance" and o["out"] in ("ok", "broke") and isinstance(o.get("trades"), dict) \
                    and c in o["trades"]:
                pos += F(*o["trades"][c])
        parts.append(_trade_kind(pos, F(*op["x"])))
    return "/".join(parts)


def replay_chunk(ctx, texts):
    """worker for explore.explore_and_replay / simulate_and_replay: ctx is the python-side model"""
    global _MODEL, _OWNED
    _MODEL = ctx["py"]
    _OWNED = ctx["owned"]
    out = _replay_chunk(texts)
    for f in out["fails"]:
        f["case"] = {"kind": "broker", "model": ctx["py"], "ops": f.pop("ops"), "step": f["step"]}
    return out


def simulate(rep, m, clauses, num, depth, seed):
    from . import explore
    cfg = m["cfg"].replace("MaxDepth = %d" % m["depth"], "MaxDepth = %d" % depth)
    explore.simulate_and_replay(rep, m["name"], m["module"], cfg, ("harness.broker_check", "replay_chunk"), {"py": m["py"], "owned": set(clauses)}, clauses,
                                num, depth, seed, m["invariants"], m["properties"])


def _replay_chunk(texts):
    from . import replay_broker
    out = {"n": 0, "ops": 0, "fails": [], "classes": {}, "sample": None}
    for text in texts:
        s = tlaval.parse_state(text)
        ops = list(s["hist"])
        if not ops:
            continue
        fails, nops = replay_broker.run_case(_MODEL, ops, s["st"], owned=_OWNED)
        out["n"] += 1
        out["ops"] += nops
        k = ops[-1]["op"] + ":" + ops[-1]["out"]
        out["classes"][k] = out["classes"].get(k, 0) + 1
        if out["sample"] is None and len(ops) >= 3:
            out["sample"] = ops
        for (i, clause, detail) in fails:
            own = _OWNED is None or clause in _OWNED
            if (own and sum(1 for f in out["fails"] if f["clause"] == clause) < 20) or (not own and len(out["fails"]) < 10):
                out["fails"].append({"step": i, "clause": clause, "detail": detail, "ops": ops[: i + 1],
                                     "key": failure_key(_MODEL, ops, i, clause)})
    return out


def _chunks(path, size=400):
    buf, cur = [], []
    with open(path) as f:
        for line in f:
            if line.startswith("State "):
                if cur:
                    buf.append("".join(cur))
                    cur = []
                    if len(buf) >= size:
                        yield buf
                        buf = []
            else:
                cur.append(line)
    if cur and "".join(cur).strip():
        buf.append("".join(cur))
    if buf:
        yield buf


def jsonable(x):
    if isinstance(x, dict):
        return {str(k): jsonable(v) for k, v in x.items()}
    if isinstance(x, (list, tuple)):
        return [jsonable(v) for v in x]
    if isinstance(x, (set, frozenset)):
        return sorted(jsonable(v) for v in x)
    if isinstance(x, F):
        return [x.numerator, x.denominator]
    return x


def explore_and_replay(rep, m, clauses, workers=8, procs=14, max_states=None):
    """TLC on model m (dump on), then replay every dumped history.  clauses: set of clause names
    that count as violations of rep.prop (others are recorded as drift)."""
    res = tlc.run("MC", m["module"], m["cfg"], workers=workers, dump=True, tag=rep.prop + "-" + m["name"],
                  timeout=7200, heap="8g")
    try:
        rep.add_model(m["name"], res, m["invariants"], m["properties"])
        if res.violated:
            tr = tlaval.parse_trace(res.trace or "")
            ops = list(tr[-1][1].get("hist", ())) if tr else []
            rep.violation("model:" + res.violated, "model/%s/%s" % (m["name"], res.violated),
                          "TLC: %s %s is violated by the specification model %s" % (
                              res.violation_kind, res.violated, m["name"]),
                          {"model": m["name"], "ops": jsonable(ops), "tlc": (res.trace or "")[:4000]})
            return
        ctx = mp.get_context("fork")
        with ctx.Pool(procs, initializer=_init_worker, initargs=(m["py"], os.environ.get("VERIF_REPO"), set(clauses))) as pool:
            for out in pool.imap_unordered(_replay_chunk, _chunks(res.dump_path)):
                rep.traces += out["n"]
                rep.evaluations += out["ops"]
                for k, v in out["classes"].items():
                    rep.count(m["name"] + ":" + k, v)
                if out["sample"] is not None:
                    rep.sample({"model": m["name"], "ops": jsonable(out["sample"])})
                for f in out["fails"]:
                    case = {"kind": "broker", "model": jsonable(m["py"]), "model_name": m["name"],
                            "ops": jsonable(f["ops"]), "step": f["step"]}
                    if f["clause"] in clauses:
                        rep.violation(f["clause"], f["key"], f["detail"], case)
                    else:
                        rep.drift.append({"clause": f["clause"], "key": f["key"], "detail": f["detail"]})
    finally:
        tlc.rm_workdir(res.workdir)
