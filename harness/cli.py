"""./check <Cxx> [--tier quick|thorough] [--replay <path>]"""
import argparse
import os
import sys

from . import core


def dispatch(prop):
    if prop in ("C01", "C05", "C13", "C03", "C12"):
        from . import props_broker
        return getattr(props_broker, prop.lower())
    if prop in ("C04", "C08", "C15", "C17"):
        from . import props_env
        return getattr(props_env, prop.lower())
    if prop == "C14":
        from . import exchange_check
        return exchange_check.c14
    if prop == "C19":
        from . import calendar_check
        return calendar_check.c19
    if prop == "C06":
        from . import interest_check
        return interest_check.c06
    if prop in ("C07", "C09", "C11"):
        from . import envfull_check
        return getattr(envfull_check, prop.lower())
    if prop == "C18":
        from . import tabular_check
        return tabular_check.c18
    if prop == "C02":
        from . import nolook_check
        return nolook_check.c02
    if prop == "C16":
        from . import metrics_check
        return metrics_check.c16
    if prop == "C10":
        from . import pair_check
        return pair_check.c10
    raise SystemExit("no check registered for %s" % prop)


def main():
    ap = argparse.ArgumentParser()
    ap.add_argument("prop")
    ap.add_argument("--tier", default=os.environ.get("VERIF_TIER", "quick"), choices=["quick", "thorough"])
    ap.add_argument("--replay")
    a = ap.parse_args()
    seed = int(os.environ.get("VERIF_SEED", "0") or 0)
    if a.replay:
        from . import replay
        return replay.run(a.prop, a.replay)
    if a.prop == "selftest":
        from . import selftest
        return selftest.run()
    fn = dispatch(a.prop)
    return fn(a.tier, seed)


if __name__ == "__main__":
    core.main_wrapper(main)
