"""Per-property model families on Env.tla."""
from . import core
from .env_check import env_model, run_models, candidates_c04, G, L, DAY, cand
from .replay_env import CLAUSE_PROPS

ASSUME = [
    "time lattice: grid points at 10:00 on consecutive days; events before / at / 1 s after a grid point, exactly at and 1 s "
    "beyond the latency bound, either side of midnight, after the end of the grid; insertion order differs from time order",
    "configurations in which two consecutive executions would carry the same time stamp (no event between them) are "
    "excluded: the track record rejects duplicate stamps by design",
    "warm-up: an event stamped before the horizon whose timestep lies inside it is unconstrained (the statement does not "
    "say which is meant) and is ignored on both sides",
    "single-threaded, synchronous Transmitter",
]

FOLD_ALL = (0, 2000000000)


def clauses_of(prop):
    return {c for c, ps in CLAUSE_PROPS.items() if prop in ps}


C04_INV = ["ExactlyOnce", "OnTime", "InOrder", "ClockIsLatest", "LatencyRule"]


def c04_models(tier, clock="after_newdate", order="by_time", maxopt=None):
    cs = candidates_c04()
    modes = [(False, -1), (True, -1), (False, DAY)]
    folds = [FOLD_ALL, (G[1], G[2])]
    if maxopt is not None:
        return [env_model("deliver", G[:3], cs, [], maxopt, [0, L], folds, modes, maxcalls=4,
                          invariants=C04_INV, clock=clock, order=order)]
    # every other stream: the Transmitter first serves another environment with the first half of the data (and is reset
    # once), is then extended with the remaining timesteps and events, and only then handed to the environment under test
    if tier == "quick":
        return [env_model("deliver", G[:3], cs, [], 3, [0, L], folds, modes, maxcalls=4,
                          invariants=C04_INV, clock=clock, order=order, reuse="extend")]
    return [env_model("deliver", G[:3], cs, [], 5, [0, L], folds, modes, maxcalls=4,
                      invariants=C04_INV, clock=clock, order=order, reuse="extend")]


def many_events_model(clock="after_newdate", order="by_time"):
    """one long stream (27 events, all present) with many shared timestamps, inserted out of time order: ties must be
    delivered in insertion order however long the stream is (sorting shortcuts tend to be stable only on short inputs)"""
    cs = candidates_c04()
    g0, g1, g2 = G[0], G[1], G[2]
    ties = [g1, g0 + 1, g1, g0 + L, g2, g1 + L, g0 + 1, g1, g0, g2, g0 + L, g1 + L]
    for i, t in enumerate(ties):
        cs.append(cand(t, "q", "AB"[i % 2], 10 + i, 12 + i) if i % 3 == 0 else cand(t, "x"))
    return env_model("deliver-many", G[:3], cs, range(1, len(cs) + 1), 0, [0, L], [FOLD_ALL, (G[1], G[2])],
                     [(False, -1), (True, -1)], maxcalls=4, invariants=C04_INV, clock=clock, order=order)


def subsecond_model(tier, invariants, clock="after_newdate", order="by_time", name="subsecond"):
    """a lattice in units of 0.1 ms: events one tick (0.0001 s) and half a second beyond the latency bound, and either
    side of midnight; three timesteps within two days so that times stay inside 32 bits"""
    from fractions import Fraction
    u = 10000                                   # ticks per second
    dl = 86400 * u
    g = [23 * 3600 * u, (23 * 3600 + 59 * 60) * u, dl + 30 * 60 * u]
    Lt = 30 * u
    cs = [
        cand(g[0], "q", "A", 9, 9),
        cand(g[0] + Lt, "q", "A", 10, 12),          # exactly at the bound
        cand(g[0] + Lt + 1, "q", "B", 20, 22),      # 0.0001 s beyond it
        cand(g[0] + Lt + u // 2, "x"),             # half a second beyond it
        cand(g[0] + 1, "x"),                        # 0.0001 s after the timestep
        cand(g[1], "q", "A", 11, 11),
        cand(g[1] + u // 2 + 1, "q", "B", 21, 21),  # just beyond a latency of 0.5 s
        cand(dl - 1, "x"),                          # 0.0001 s before midnight
        cand(dl + 1, "q", "A", 12, 12),             # 0.0001 s after midnight
        cand(g[2], "q", "A", 12, 14),
    ]
    return env_model(name, g, cs, [], 3 if tier == "quick" else 5, [0, u // 2, Lt], [FOLD_ALL], [(False, -1), (True, -1)],
                     maxcalls=3, reset_anywhere=False, invariants=invariants, clock=clock, order=order,
                     tick=Fraction(1, u), daylen=dl)


def c04(tier, seed):
    rep = core.Report("C04", tier, seed)
    rep.assumptions = list(ASSUME) + ["a second lattice in units of 0.1 ms covers sub-second stamps around the latency bound "
                                      "and midnight"]
    run_models(rep, c04_models(tier) + [subsecond_model(tier, C04_INV), many_events_model()], clauses_of("C04"))
    # code -> spec: the repository's own regression back-tests under the recording plugin, validated by TLC (EnvTrace.tla)
    from . import envtrace_check
    envtrace_check.validate_repo_tests(rep, tier, clauses_of("C04"))
    return rep.finish()


def bar_candidates(n, extras=True):
    """a quote for A at every one of the first n grid points (ids 1..n) + extra quotes around the latency bound"""
    cs = [cand(G[k], "q", "A", 100 + 4 * k, 102 + 4 * k) for k in range(n)]
    if extras:
        for k in range(n - 1):
            cs.append(cand(G[k] + L, "q", "A", 101 + 4 * k, 101 + 4 * k))        # exactly at the bound
            cs.append(cand(G[k] + L + 1, "q", "A", 103 + 4 * k, 105 + 4 * k))    # just beyond
            cs.append(cand(G[k] + 10, "q", "A", 99 + 4 * k, 100 + 4 * k))        # a second quote inside the window
        cs.append(cand(G[0] + 1, "q", "B", 50, 52))
        cs.append(cand(G[1] + 10, "x"))
        # a revised print: same contract, same stamp as the quote exactly at the second bound, inserted later - it is the last
        # quote stamped <= t + latency
        cs.append(cand(G[1] + L, "q", "A", 111, 113))
    return cs


C08_INV = ["FifoDelay", "ExecPricedAtLatencyCut", "LatencyRule", "StampIsLatest", "StrictStamps", "NullActionExecutes"]


def c08_models(tier, null="in_space"):
    n = 4 if tier == "quick" else 5
    cs = bar_candidates(n)
    modes = [(False, -1)] if tier == "quick" else [(False, -1), (True, -1)]
    ms = [env_model("fifo", G[:n], cs, range(1, n + 1), 2 if tier == "quick" else 3, [0, L], [FOLD_ALL], modes,
                    delays=(0, 1, 2), spaces=("box", "discrete"), maxcalls=n, reset_anywhere=False,
                    invariants=C08_INV, trade=True, null=null, reuse=True)]
    # repeated / abandoned episodes on one environment: the queue of delayed decisions starts afresh at every reset
    ms.append(env_model("fifo-resets", G[:n], bar_candidates(n, extras=False) + [cand(G[0] + 10, "q", "A", 90, 91),
                                                                                 cand(G[1] + L, "q", "A", 92, 93)],
                        range(1, n + 1), 2, [L], [FOLD_ALL], [(False, -1)], delays=(1, 2), spaces=("box", "discoff"),
                        maxcalls=n + 2, reset_anywhere=True, invariants=C08_INV, trade=True, null=null))
    # Markovian transmitter, episodes of a requested length starting at a drawn position, then episodes stepping through
    # the earlier starting points: what an execution is priced at never depends on where earlier episodes began
    ms.append(env_model("fifo-markov-episodes", G[:n], bar_candidates(n, extras=False) + [cand(G[0] + 10, "q", "A", 90, 91),
                                                                                          cand(G[1] + L, "q", "A", 92, 93),
                                                                                          cand(G[2] + L + 1, "q", "A", 94, 95)],
                        range(1, n + 1), 1, [0, L], [FOLD_ALL], [(True, -1)], delays=(0, 1), spaces=("box",),
                        maxcalls=n + 1, reset_anywhere=True, invariants=C08_INV, trade=True, null=null, resetlens=(0, 2)))
    # sub-second stamps around the latency bound, with trading
    sub = subsecond_model(tier, C08_INV, name="fifo-subsecond")
    ms.append(sub)
    return ms


def c08(tier, seed):
    rep = core.Report("C08", tier, seed)
    rep.assumptions = list(ASSUME) + ["bar-shaped stream: a quote for the traded contract at every timestep; submitted "
                                      "actions are pairwise distinct weights so that any drop, duplication or reordering "
                                      "shows in the executed allocation"]
    run_models(rep, c08_models(tier), clauses_of("C08"))
    # a user-defined space whose actions are CHANGES of the portfolio weights (EnvFull.tla, Relative): what is executed between
    # t and t' is sized on the account valued at the last quotes stamped <= t + latency, like its price
    from . import envfull_check as ef
    from .tlagen import Rec
    from fractions import Fraction as F
    grid = ef.G[:4]
    ev = ef.bars(grid, {"S1": [8, 8, 16, 8], "F4": [8, 8, 8, 8]}, 0)
    ev += [Rec(t=grid[1] + L, kind="q", c="S1", bid=16, ask=16), Rec(t=grid[2] + L + 1, kind="q", c="S1", bid=8, ask=8)]
    tg = [{"S1": F(1, 2)}, {"S1": F(1, 4)}, {"S1": F(-1, 4), "F4": F(1, 4)}, {}]
    m = ef.full_model("weight-changes", ["S1", "F4"], ["S1", "F4"], grid, ev, tg, lats=(0, L), delays=(0, 1), fees="free",
                      maxsteps=3, relative=True, invariants=["LedgerReplay"])
    ef.run_models(rep, [m], {"pos", "track_trades"})
    # code -> spec at the level of the whole environment: long random episodes of a real TradingEnv on a dyadic grid,
    # validated line by line by TLC (EnvLedgerTrace.tla)
    from . import envledger_check
    envledger_check.validate(rep, "C08", 8 if tier == "quick" else 120, seed, tier)
    return rep.finish()


C15_INV = ["InFold", "Consecutive", "ExactLength", "StartSetExact"]


def c15_models(tier):
    n = 5 if tier == "quick" else 6
    # sparse events: some grid points bear no event, so "event-bearing timesteps" differs from the grid
    cs = [cand(G[k], "q", "A", 100 + k, 100 + k) for k in range(n)] + [cand(G[1] + 3600, "x"), cand(G[0] - 60, "x")]
    # the third fold starts just after a timestep and ends on a MIDNIGHT stamp: the 10:00 timestep of that day is outside it
    folds = [FOLD_ALL, (G[1], G[3]), (G[0] + 1, DAY * (n - 2)), (G[2], G[2])]
    eplens = (0, 1, 2, 3, 4) if tier == "quick" else (0, 1, 2, 3, 4, 5, 6)
    ms = [env_model("folds", G[:n], cs, [1], 4 if tier == "quick" else n + 1, [0], folds, [(False, -1), (True, -1)],
                    eplens=eplens, maxcalls=5 if tier == "quick" else 7, reset_anywhere=False,
                    invariants=C15_INV, properties=["DoneIsAbsorbing"], reuse="extend")]
    # an episode length passed to reset() holds for that episode only: later plain resets use the configured one again;
    # an execution delay changes nothing to the number of decisions of an episode
    ms.append(env_model("reset-length", G[:n], cs[:n], range(1, n + 1), 0, [0], [FOLD_ALL], [(False, -1)], eplens=(0, 2),
                        resetlens=(0, 3, 4), maxcalls=5, reset_anywhere=True, invariants=C15_INV, delays=(0, 1)))
    # liveness under weak fairness of Step: an episode of n decisions does end (no state constraint; the call bound exceeds
    # the longest episode)
    ms.append(env_model("folds-live", G[:4], cs[:4] + cs[n:], [1], 2, [0], folds[:2], [(False, -1)], eplens=(0, 1, 2),
                        maxcalls=6, reset_anywhere=False, invariants=["ExactLength"], properties=["EpisodeEnds"],
                        specification="FairSpec"))
    # a long fold (1060 event-bearing timesteps, an episode of 2 decisions fits at 1058 positions) with exponentially
    # weighted start sampling: every position is still offered, with a usable probability
    nl = 1060
    gl = [36000 + DAY * k for k in range(nl)]
    cl = [cand(gl[k], "q", "A", 100, 100) for k in range(nl)]
    ms.append(env_model("long-fold", gl, cl, range(1, nl + 1), 0, [0], [FOLD_ALL], [(True, -1)], eplens=(2,),
                        maxcalls=1, reset_anywhere=False, invariants=["StartSetExact"], start_stride=151))
    return ms


def c15(tier, seed):
    rep = core.Report("C15", tier, seed)
    rep.assumptions = list(ASSUME) + ["the constructor argument episode_length=n is what is claimed as 'n decisions'; "
                                      "reset(episode_length=k) passes k un-incremented and is not claimed"]
    run_models(rep, c15_models(tier), clauses_of("C15"))
    from . import walkforward
    walkforward.check(rep, tier)
    # code -> spec at the level of the whole environment: long random episodes of a real TradingEnv on a dyadic grid,
    # validated line by line by TLC (EnvLedgerTrace.tla)
    from . import envledger_check
    envledger_check.validate(rep, "C15", 8 if tier == "quick" else 120, seed, tier)
    return rep.finish()


def c17_models(tier):
    n = 4
    cs = bar_candidates(n, extras=False)
    bads = [(0, "ok")] + [(at, cls) for at in (1, 2, 3) for cls in ("shape", "below", "above", "nan", "index", "column")]
    inv = ["MalformedNeverExecutes", "RejectedByDueStep", "MalformedRejected", "FifoDelay"]
    return [env_model("malformed", G[:n], cs, range(1, n + 1), 0, [0], [FOLD_ALL], [(False, -1)],
                      delays=(0, 1, 2), spaces=("box", "discrete", "boxcash", "boxlots", "disclots", "boxvec"), bads=bads, maxcalls=n,
                      reset_anywhere=False, trade=True, invariants=inv),
            # a space whose bounds exclude zero (the all-zero action is the "below" class there); no delay, because the
            # null action that a delay queues is itself outside such a space
            env_model("malformed-boxpos", G[:n], cs, range(1, n + 1), 0, [0], [FOLD_ALL], [(False, -1)], delays=(0,),
                      spaces=("boxpos",), bads=bads, maxcalls=n, reset_anywhere=False, trade=True, invariants=inv),
            # abandoned and repeated episodes with delayed execution: whatever was still queued when an episode was
            # abandoned (in-space or malformed) denotes nothing in the next one
            env_model("malformed-resets", G[:n], cs, range(1, n + 1), 0, [0], [FOLD_ALL], [(False, -1)], delays=(1, 2),
                      spaces=("box", "discrete"), bads=[(0, "ok"), (1, "nan"), (2, "above")], maxcalls=n + 2,
                      reset_anywhere=True, trade=True, invariants=inv)]


def c17(tier, seed):
    rep = core.Report("C17", tier, seed)
    rep.assumptions = list(ASSUME) + ["malformed classes: wrong shape, below / above the bounds, NaN, invalid or non-integer "
                                      "index; spaces: Box weights, Box with a cash entry, Box in numbers of contracts, Discrete"]
    run_models(rep, c17_models(tier), clauses_of("C17"))
    # "executed as the allocation it denotes" with an account behind it (EnvFull.tla): a space declared with a no-trade
    # margin, actions whose entries are small next to what is held - the position after each step is the one the weight
    # vector denotes (the margin is about the size of the CHANGE, not of the target)
    from . import envfull_check as ef
    from fractions import Fraction as F
    grid = ef.G[:4]
    ev = ef.bars(grid, {"S1": [8, 8, 16, 8], "F4": [8, 16, 8, 8]}, 0)
    tg = [{"S1": F(1, 2)}, {"S1": F(1, 32)}, {"S1": F(1, 2), "F4": F(-1, 32)}, {"F4": F(1, 2)}, {}]
    m = ef.full_model("margin-space", ["S1", "F4"], ["S1", "F4"], grid, ev, tg, lats=(0,), delays=(0, 1), fees="free",
                      thr=F(1, 16), maxsteps=3, invariants=["LedgerReplay"])
    ef.run_models(rep, [m], {"pos", "track_trades"})
    xy_bounds(rep)
    return rep.finish()


def xy_bounds(rep):
    """the tabular environment declares its action space through max_long / max_short: a bound of exactly 0 (long-only,
    short-only) is a bound like any other.  (Harness-level instantiation of MalformedRejected for this constructor.)"""
    from . import impl, tabular_check as tc
    import numpy as np
    from tradingenv.env import TradingEnvXY
    p = {"dx": set(d for d in range(1, 20) if (d - 1) % 7 < 5), "w": 1, "s": 0, "start": 0, "end": 0}
    p["dy"] = set(p["dx"])
    X, Y, rate = tc.tables(p)
    n = 0
    for kw, bad, good in (({"max_short": 0.0}, [-0.5, 0.5], [0.25, 0.5]), ({"max_long": 0.0}, [0.5, -0.5], [-0.25, -0.5]),
                          ({"max_short": -0.5, "max_long": 0.75}, [-0.75, 0.5], [-0.5, 0.75])):
        for delay in (0, 1):
            o, env = impl.classify(lambda: TradingEnvXY(X, Y, window=1, spread=0.0, rate=rate, steps_delay=delay, margin=0.0, fee=0.0,
                                                        markup=0.0, **kw))
            case = {"kind": "xy-bounds", "bounds": kw, "delay": delay, "action": bad}
            n += 1
            if o != "ok":
                rep.violation("malformed_executed", "malformed_executed/xy/construct", "TradingEnvXY(%s) could not be built: %r" % (kw, env), case)
                continue
            env.reset()
            o1, _ = impl.classify(lambda: env.step(np.array(good)))
            if o1 != "ok":
                rep.violation("allocation", "allocation/xy/%s" % sorted(kw)[0], "an action inside the declared bounds %s was refused" % (kw,), case)
                continue
            before = (dict(env.broker.holdings_quantity), len(env.broker.track_record))
            outs = []
            for _ in range(delay + 1):
                o2, _v = impl.classify(lambda: env.step(np.array(bad)))
                outs.append(o2)
                if o2 != "ok":
                    break
            executed = False
            for i in range(before[1], len(env.broker.track_record)):
                al = [float(v) for v in env.broker.track_record[i].allocation.values()]
                if sorted(al) == sorted(float(b_) for b_ in bad):
                    executed = True
            if outs[-1] == "ok" or executed:
                rep.violation("malformed_executed", "malformed_executed/xy/%s" % sorted(kw)[0],
                              "TradingEnvXY declared with %s executed the action %s, which lies outside those bounds (outcomes %s)" % (kw, bad, outs), case)
    rep.traces += n
    rep.evaluations += n
    rep.count("xy_bounds_scenarios", n)


def repro_models(tier):
    """bar-shaped trading episodes with resets anywhere, delays and a malformed action (an episode ended by an error)"""
    n = 4
    cs = bar_candidates(n)
    bads = [(0, "ok"), (2, "nan")]
    ms = [env_model("trade-resets", G[:n], cs, range(1, n + 1), 1, [0, L], [FOLD_ALL, (G[1], G[3])], [(False, -1), (True, -1)],
                    delays=(0, 1), spaces=("box", "discrete"), bads=bads, maxcalls=5, reset_anywhere=True, trade=True,
                    invariants=["FifoDelay", "ExactlyOnce"])]
    # episodes of a sampled length requested through reset(episode_length=k), followed by plain resets
    n2 = 5
    ms.append(env_model("sampled-then-full", G[:n2], bar_candidates(n2, extras=False), range(1, n2 + 1), 0, [0], [FOLD_ALL],
                        [(False, -1)], delays=(0,), maxcalls=4 if tier == "quick" else 5, reset_anywhere=True, trade=True,
                        resetlens=(0, 2, 3),
                        invariants=["ExactLength", "InFold", "Consecutive", "StartSetExact"]))
    return ms
