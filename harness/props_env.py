"""Per-property model families on Env.tla."""
from . import core
from .env_check import env_model, run_models, candidates_c04, G, L, DAY, cand
from .replay_env import CLAUSE_PROPS

ASSUME = [
    "time lattice: grid points at 10:00 on consecutive days; events before / at / 1 s after a grid point, exactly at and 1 s "
    "beyond the latency bound, either side of midnight, after the end of the grid; insertion order differs from time order",
    "configurations in which two consecutive executions would carry the same time stamp (no event between them) are "
    "excluded: the track record rejects duplicate stamps by design",
    "warm-up: an event stamped before the horizon whose timestep lies inside it is unconstrained (the statement does not "
    "say which is meant) and is ignored on both sides",
    "single-threaded, synchronous Transmitter",
]

FOLD_ALL = (0, 2000000000)


def clauses_of(prop):
    return {c for c, ps in CLAUSE_PROPS.items() if prop in ps}


C04_INV = ["ExactlyOnce", "OnTime", "InOrder", "ClockIsLatest", "LatencyRule"]


def c04_models(tier, clock="after_newdate", order="by_time"):
    cs = candidates_c04()
    modes = [(False, -1), (True, -1), (False, DAY)]
    folds = [FOLD_ALL, (G[1], G[2])]
    if tier == "quick":
        return [env_model("deliver", G[:3], cs, [], 3, [0, L], folds, modes, maxcalls=4,
                          invariants=C04_INV, clock=clock, order=order)]
    return [env_model("deliver", G[:3], cs, [], 5, [0, L], folds, modes, maxcalls=4,
                      invariants=C04_INV, clock=clock, order=order)]


def c04(tier, seed):
    rep = core.Report("C04", tier, seed)
    rep.assumptions = list(ASSUME)
    run_models(rep, c04_models(tier), clauses_of("C04"))
    return rep.finish()
