"""./check <Cxx> --replay <path>: re-execute one recorded failing case on the current tree.
Exit 1 (and a VIOLATION line) if a clause owned by the property fails again, 0 if the case now passes."""
import json
from fractions import Fraction as F


def _model_from_json(m):
    out = dict(m)
    out["contracts"] = {k: dict(v, mr=F(*v["mr"]) if isinstance(v["mr"], list) else F(v["mr"])) for k, v in m["contracts"].items()}
    for k in ("fixed", "prop", "deposit", "rate", "markup", "epsilon", "thr"):
        if k in out and isinstance(out[k], list):
            out[k] = F(*out[k])
    return out


def run(prop, path):
    with open(path) as f:
        rec = json.load(f)
    case = rec.get("case") or {}
    kind = case.get("kind")
    print("replaying %s case %s (clause %s, key %s)" % (kind, path, rec.get("clause"), rec.get("key")))
    fails = []
    if kind == "broker":
        from . import replay_broker
        owned = {c for c, ps in replay_broker.CLAUSE_PROPS.items() if prop in ps}
        fs, _ = replay_broker.run_case(_model_from_json(case["model"]), case["ops"], None, owned=owned)
        fails = [(c, d) for (_, c, d) in fs if c in owned]
    elif kind == "env":
        from . import replay_env
        owned = {c for c, ps in replay_env.CLAUSE_PROPS.items() if prop in ps}
        fs, _ = replay_env.run_case(case["cfg"], case["hist"], case.get("trade", False), seed=len(case["cfg"]["events"]), owned=owned)
        fails = [(c, d) for (_, c, d) in fs if c in owned]
    elif kind == "envfull":
        from . import replay_envfull
        owned = {c for c, ps in replay_envfull.CLAUSE_PROPS.items() if prop in ps}
        fs, _ = replay_envfull.run_case(_model_from_json(case["model"]), case["cfg"], case["hist"], case.get("reward", "simple"), owned=owned)
        fails = [(f[1], f[2]) for f in fs if f[1] in owned]
    else:
        print(json.dumps(rec, indent=1, default=str)[:6000])
        print("(cases of kind %r are re-run by the check itself: ./check %s)" % (kind, prop))
        return 0
    for c, d in fails[:5]:
        print("  clause=%s %s" % (c, d))
    if fails:
        print("VIOLATION property=%s replay=%s" % (prop, path))
        return 1
    print("case passes on the current tree")
    return 0
