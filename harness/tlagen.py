"""Render Python values as TLA+ expressions and build MC modules / cfg files."""
from fractions import Fraction


def tla(v):
    if isinstance(v, bool):
        return "TRUE" if v else "FALSE"
    if isinstance(v, int):
        return str(v) if v >= 0 else "(%d)" % v
    if isinstance(v, Fraction):
        return "<<%d, %d>>" % (v.numerator, v.denominator)
    if isinstance(v, str):
        return '"%s"' % v
    if isinstance(v, Raw):
        return v.s
    if isinstance(v, (tuple, list)):
        return "<<" + ", ".join(tla(x) for x in v) + ">>"
    if isinstance(v, (set, frozenset)):
        return "{" + ", ".join(sorted(tla(x) for x in v)) + "}"
    if isinstance(v, Rec):
        return "[" + ", ".join("%s |-> %s" % (k, tla(x)) for k, x in v.items()) + "]"
    if isinstance(v, dict):
        if not v:
            return "<<>>"
        return "(" + " @@ ".join("%s :> %s" % (tla(k), tla(x)) for k, x in v.items()) + ")"
    raise TypeError("cannot render %r as TLA+" % (v,))


class Raw:
    def __init__(self, s):
        self.s = s


class Rec(dict):
    """a TLA+ record (dict renders as a function)"""


def mc_module(name, extends, defs, extra=""):
    """defs: {constant name: python value}; each constant X is defined as c_X and bound in the cfg."""
    lines = ["---- MODULE %s ----" % name, "EXTENDS %s" % extends]
    for k, v in defs.items():
        lines.append("c_%s == %s" % (k, tla(v)))
    if extra:
        lines.append(extra)
    lines.append("====")
    return "\n".join(lines) + "\n"


def cfg(defs, plain=None, invariants=(), properties=(), view=None, init="Init", next_="Next",
        constraint=None, deadlock=False, postcondition=None, specification=None):
    lines = ["CONSTANTS"]
    for k in defs:
        lines.append(" %s <- c_%s" % (k, k))
    if not defs and not plain:
        lines.pop()
    for k, v in (plain or {}).items():
        lines.append(" %s = %s" % (k, tla(v) if not isinstance(v, int) or isinstance(v, bool) else str(v)))
    if specification:
        lines.append("SPECIFICATION " + specification)
    else:
        lines.append("INIT " + init)
        lines.append("NEXT " + next_)
    if view:
        lines.append("VIEW " + view)
    for i in invariants:
        lines.append("INVARIANT " + i)
    for p in properties:
        lines.append("PROPERTY " + p)
    if constraint:
        lines.append("CONSTRAINT " + constraint)
    if postcondition:
        lines.append("POSTCONDITION " + postcondition)
    lines.append("CHECK_DEADLOCK " + ("TRUE" if deadlock else "FALSE"))
    return "\n".join(lines) + "\n"
