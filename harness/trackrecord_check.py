"""TrackRecord.tla bound to the real tradingenv TrackRecord (container half of C07): TLC enumerates every sequence of
checkpoints (stamps arriving in any order, duplicated stamps, entries with and without trades - no VIEW, every path);
each behaviour is replayed on a real TrackRecord fed with stub rebalancing objects and, after every call, the entries (by
position and by stamp) and the frames (all rows, burn-in rows, per-row costs) are compared with the specification."""
from datetime import datetime, timedelta

from . import tlagen, tlaval, explore

CLAUSE_PROPS = {"container": ["C07"]}
DAY1 = datetime(2020, 1, 1)


class _Ctx:
    def __init__(self, nlv):
        self.nlv = nlv
        self.weights = {}
        self.values = {}
        self.nr_contracts = {}
        self.margins = {}


class _Trade:
    def __init__(self, k):
        self.cost_of_spread = 2.0 * k
        self.cost_of_commissions = 1.0 * k


class _Reb:
    """what Broker.rebalance hands to TrackRecord._checkpoint, reduced to what the container and its frames read"""

    def __init__(self, time, k, nt):
        self.time = time
        self.k = k
        self.trades = [_Trade(k) for _ in range(nt)]
        self.context_pre = _Ctx(100.0 + k)
        self.context_post = _Ctx(200.0 + k)
        self.profit_on_idle_cash = k / 10.0
        self.allocation = {}


def replay_chunk(ctx, texts):
    from . import impl
    import pandas as pd
    from tradingenv.broker.track_record import TrackRecord
    out = {"n": 0, "ops": 0, "fails": [], "classes": {}, "sample": None}
    for text in texts:
        s = tlaval.parse_state(text)
        if s["n"] != ctx["maxops"]:
            continue
        ops = list(s["hist"])
        tr = TrackRecord()
        bad = None
        for i, op in enumerate(ops):
            out["ops"] += 1
            t = DAY1 + timedelta(days=int(op["t"]), hours=10)
            stamp = pd.Timestamp(t) if op["id"] % 2 == 0 else t          # the broker hands over either kind of stamp
            reb = _Reb(stamp, op["id"], int(op["nt"]))
            o, v = impl.classify(lambda: tr._checkpoint(reb))
            got = "ok" if o == "ok" else "error"
            if got != op["out"]:
                bad = (i, "checkpoint stamped %s (%d trades): outcome %s (%r), specification %s" % (t, op["nt"], got, v, op["out"]))
                break
            rows, burnt = list(op["rows"]), list(op["burnt"])
            ids = [tr[j].k for j in range(len(tr))]
            if len(tr) != len(rows) or ids != rows:
                bad = (i, "the record holds entries %s, accepted checkpoints in arrival order are %s" % (ids, rows))
                break
            if any(tr[tr[j].time.to_pydatetime() if hasattr(tr[j].time, "to_pydatetime") else tr[j].time] is not tr[j] for j in range(len(tr))):
                bad = (i, "an entry addressed by its stamp is not the entry at its position")
                break
            o1, df = impl.classify(lambda: tr.net_liquidation_value(before_rebalancing=True))
            o2, dfb = impl.classify(lambda: tr.net_liquidation_value(before_rebalancing=False, burn=True))
            o3, tc = impl.classify(lambda: tr.transaction_costs(cumulative=False))
            o4, tcb = impl.classify(lambda: tr.transaction_costs(cumulative=False, burn=True))
            if not rows:
                continue
            if o1 != "ok" or [float(x) for x in df.iloc[:, 0]] != [100.0 + k for k in rows]:
                bad = (i, "net_liquidation_value() lists %r, the entries are %s" % (df if o1 != "ok" else list(df.iloc[:, 0]), rows))
                break
            if o2 != "ok" or [float(x) for x in dfb.iloc[:, 0]] != [200.0 + k for k in burnt]:
                bad = (i, "net_liquidation_value(burn=True) lists %r; without the leading entries that traded nothing the entries "
                          "are %s (all: %s)" % (dfb if o2 != "ok" else list(dfb.iloc[:, 0]), burnt, rows))
                break
            nts = {r["id"]: int(r["nt"]) for r in ops[: i + 1]}
            if o3 != "ok" or [float(x) for x in tc["Broker fees"]] != [1.0 * k * nts[k] for k in rows] or \
                    [float(x) for x in tc["Spread"]] != [2.0 * k * nts[k] for k in rows] or \
                    [round(float(x) * 10) for x in tc["Profit on idle Cash"]] != [k for k in rows]:
                bad = (i, "transaction_costs(cumulative=False) = %r for entries %s" % (tc if o3 != "ok" else tc.values.tolist(), rows))
                break
            if burnt and (o4 != "ok" or [float(x) for x in tcb["Broker fees"]] != [1.0 * k * nts[k] for k in burnt]):
                bad = (i, "transaction_costs(burn=True) = %r for entries %s" % (tcb if o4 != "ok" else tcb.values.tolist(), burnt))
                break
        out["n"] += 1
        k = "".join("d" if r["out"] == "error" else ("t" if r["nt"] else "i") for r in ops)
        out["classes"][k] = out["classes"].get(k, 0) + 1
        if out["sample"] is None and any(r["out"] == "error" for r in ops):
            out["sample"] = {"checkpoints": [(r["t"], r["nt"], r["out"]) for r in ops]}
        if bad and len(out["fails"]) < 20:
            out["fails"].append({"clause": "container", "key": "container/%s" % ops[bad[0]]["out"], "detail": bad[1],
                                 "case": {"kind": "track-record", "checkpoints": [(r["t"], r["nt"]) for r in ops[: bad[0] + 1]]}})
    return out


def check(rep, tier, owned):
    mo = 4 if tier == "quick" else 5
    defs = {"Times": {1, 2, 3} if tier == "quick" else {1, 2, 3, 4}, "NTrades": {0, 1, 2}}
    inv = ["OneEntryPerCheckpoint", "UniqueStamps", "BurnIsLeadingIdle"]
    props = ["DuplicateRefused", "AppendOnly"]
    explore.explore_and_replay(rep, "track-record-container", tlagen.mc_module("MC", "TrackRecord", defs),
                               tlagen.cfg(defs, {"MaxOps": mo}, invariants=inv, properties=props),
                               ("harness.trackrecord_check", "replay_chunk"), {"maxops": mo}, owned, inv, props, chunk=400, workers=4)
