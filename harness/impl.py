"""Access to the implementation under verification.

tradingenv is imported from /repo's *current working tree* (or from $VERIF_REPO when a
self-test points the checks at a scratch copy).  Nothing is cached between runs.
"""
import math
import os
import sys
from datetime import datetime, timedelta
from fractions import Fraction

REPO = os.environ.get("VERIF_REPO", "/repo")
if REPO not in sys.path:
    sys.path.insert(0, REPO)
os.environ.setdefault("TRADINGENV_VERIF", "1")

import warnings  # noqa: E402
warnings.filterwarnings("ignore")

import numpy as np  # noqa: E402
import tradingenv  # noqa: E402

assert os.path.abspath(tradingenv.__file__).startswith(os.path.abspath(REPO)), \
    "tradingenv imported from %s, expected %s" % (tradingenv.__file__, REPO)

from tradingenv.contracts import AbstractContract, Cash, Rate, ETF  # noqa: E402
from tradingenv.exchange import Exchange  # noqa: E402
from tradingenv.events import EventNBBO, EventContractDiscontinued  # noqa: E402
from tradingenv.broker.broker import Broker, EndOfEpisodeError  # noqa: E402
from tradingenv.broker.fees import BrokerFees  # noqa: E402
from tradingenv.broker.trade import Trade  # noqa: E402
from tradingenv.broker.rebalancing import Rebalancing  # noqa: E402

BASE = datetime(2001, 1, 1)
YEAR = timedelta(days=365)
TOL = 1e-9

NAN = (0, 0)
NONE = (0, -1)


def frac(r):
    """spec rational <<n, d>> -> Fraction, None for the NaN / None sentinels"""
    if r is None or r == "-":
        return None
    r = tuple(r)
    if r == NAN or r == NONE:
        return None
    return Fraction(r[0], r[1])


def fl(r):
    f = frac(r)
    return float("nan") if f is None else float(f)


def close(code, exact, tol=TOL):
    """code value (float) against an exact Fraction"""
    if exact is None:
        return code is None or (isinstance(code, float) and math.isnan(code))
    if code is None or (isinstance(code, float) and math.isnan(code)):
        return False
    e = float(exact)
    return abs(float(code) - e) <= tol * max(1.0, abs(e))


class GridContract(AbstractContract):
    """ONE user-defined contract class whose instances carry their own specification (multiplier, cash requirement,
    margin requirement): the properties quantify over user-defined contracts, and nothing says one class per spec."""

    def __init__(self, symbol, multiplier, cash_requirement, margin_requirement):
        self._symbol = symbol
        self._multiplier = float(multiplier)
        self._cash_requirement = float(cash_requirement)
        self._margin_requirement = float(margin_requirement)

    @property
    def symbol(self):
        return self._symbol

    @property
    def multiplier(self):
        return self._multiplier

    @property
    def cash_requirement(self):
        return self._cash_requirement

    @property
    def margin_requirement(self):
        return self._margin_requirement


def make_contract_class(name, multiplier, cash_requirement, margin_requirement):
    """kept for callers that want a class: a factory producing GridContract instances"""
    return lambda symbol: GridContract(symbol, multiplier, cash_requirement, margin_requirement)


def make_contracts(spec):
    """spec: {name: {"mult":, "cashreq":, "mr": Fraction, "builtin": optional}} -> {name: contract}"""
    out = {}
    for name, s in sorted(spec.items()):
        if s.get("builtin") == "ETF":
            out[name] = ETF(name)
        else:
            out[name] = GridContract(name, s["mult"], s["cashreq"], float(s["mr"]))
    return out


def classify(fn):
    """Run fn(); return (out, value) with out in ok / broke / error."""
    try:
        v = fn()
        return "ok", v
    except EndOfEpisodeError as e:
        return "broke", e
    except Exception as e:  # noqa: BLE001 - the outcome *class* is what is compared
        return "error", e
