"""Access to the implementation under verification.

tradingenv is imported from /repo's *current working tree* (or from $VERIF_REPO when a
self-test points the checks at a scratch copy).  Nothing is cached between runs.
"""
import math
import os
import sys
from datetime import datetime, timedelta
from fractions import Fraction

REPO = os.environ.get("VERIF_REPO", "/repo")
if REPO not in sys.path:
    sys.path.insert(0, REPO)
os.environ.setdefault("TRADINGENV_VERIF", "1")

import warnings  # noqa: E402
warnings.filterwarnings("ignore")

import numpy as np  # noqa: E402
import tradingenv  # noqa: E402

assert os.path.abspath(tradingenv.__file__).startswith(os.path.abspath(REPO)), \
    "tradingenv imported from %s, expected %s" % (tradingenv.__file__, REPO)

from tradingenv.contracts import AbstractContract, Cash, Rate, ETF  # noqa: E402
from tradingenv.exchange import Exchange  # noqa: E402
from tradingenv.events import EventNBBO, EventContractDiscontinued  # noqa: E402
from tradingenv.broker.broker import Broker, EndOfEpisodeError  # noqa: E402
from tradingenv.broker.fees import BrokerFees  # noqa: E402
from tradingenv.broker.trade import Trade  # noqa: E402
from tradingenv.broker.rebalancing import Rebalancing  # noqa: E402

BASE = datetime(2001, 1, 1)
YEAR = timedelta(days=365)
TOL = 1e-9

NAN = (0, 0)
NONE = (0, -1)


def frac(r):
    """spec rational <<n, d>> -> Fraction, None for the NaN / None sentinels"""
    if r is None or r == "-":
        return None
    r = tuple(r)
    if r == NAN or r == NONE:
        return None
    return Fraction(r[0], r[1])


def fl(r):
    f = frac(r)
    return float("nan") if f is None else float(f)


def close(code, exact, tol=TOL):
    """code value (float) against an exact Fraction"""
    if exact is None:
        return code is None or (isinstance(code, float) and math.isnan(code))
    if code is None or (isinstance(code, float) and math.isnan(code)):
        return False
    e = float(exact)
    return abs(float(code) - e) <= tol * max(1.0, abs(e))


def make_contract_class(name, multiplier, cash_requirement, margin_requirement):
    """A user-defined contract: the properties quantify over those."""
    ns = {
        "__init__": lambda self, symbol: setattr(self, "_symbol", symbol),
        "symbol": property(lambda self: self._symbol),
        "multiplier": float(multiplier),
        "cash_requirement": float(cash_requirement),
        "margin_requirement": float(margin_requirement),
    }
    return type(name, (AbstractContract,), ns)


def make_contracts(spec):
    """spec: {name: {"mult":, "cashreq":, "mr": Fraction, "builtin": optional}} -> {name: contract}"""
    out = {}
    for name, s in sorted(spec.items()):
        if s.get("builtin") == "ETF":
            out[name] = ETF(name)
        else:
            cls = make_contract_class("Grid_" + name, s["mult"], s["cashreq"], float(s["mr"]))
            out[name] = cls(name)
    return out


def classify(fn):
    """Run fn(); return (out, value) with out in ok / broke / error."""
    try:
        v = fn()
        return "ok", v
    except EndOfEpisodeError as e:
        return "broke", e
    except Exception as e:  # noqa: BLE001 - the outcome *class* is what is compared
        return "error", e
