"""C18 on Tabular.tla, and the tabular half of C02 (paired runs on perturbed tables)."""
import copy
import math
from datetime import datetime, timedelta

import numpy as np

from . import tlagen, tlaval, core, explore

DAY1 = datetime(2019, 12, 16)            # a Monday; 2019-12-25 is day 10, 2020-01-01 day 17, 2020-01-20 day 36
CLAUSE_PROPS = {"steps": ["C18"], "window_short": ["C18"], "obs": ["C18"], "shape": ["C18"], "bounds": ["C18"],
                "quotes": ["C18"], "rate": ["C18"], "construct": ["C18"], "table": [], "state_window": ["C18"]}


_CLK = {"intraday": False, "day1": DAY1}


def D(d):
    """index number -> stamp.  Daily tables: calendar day d.  Intraday tables: even numbers are on the hour, odd numbers 30 s
    past the hour before, all on one business day (2 -> 09:00:00, 3 -> 09:00:30, 4 -> 10:00:00 ...)"""
    if _CLK["intraday"]:
        k = int(d)
        return DAY1 + timedelta(hours=8 + k // 2, seconds=30 * (k % 2))
    return _CLK["day1"] + timedelta(days=int(d) - 1)


def NUM(t):
    if _CLK["intraday"]:
        dt = t - DAY1 - timedelta(hours=8)
        return 2 * int(dt.total_seconds() // 3600) + (1 if int(dt.total_seconds()) % 3600 else 0)
    return int((t - _CLK["day1"]).days) + 1


def holidays_in(ndays, calendar="NYSE"):
    """exchange holidays of the range, read from the calendar library (trusted)"""
    import pandas_market_calendars
    cal = pandas_market_calendars.get_calendar(calendar)
    hs = set(np.datetime64(h, "D") for h in cal.holidays().holidays)
    return {d for d in range(1, ndays + 1) if np.datetime64(D(d).date(), "D") in hs}


def model_small(ndays, hol, windows, strides, folds):
    """one full table, no missing days: used for the fold and calendar scenarios"""
    defs = {"Holidays": set(hol), "Windows": set(windows), "Strides": set(strides),
            "Bounds": tlagen.Raw("{<<0, 0>>}"), "MissX": tlagen.Raw("{{}}"), "MissY": tlagen.Raw("{{}}"),
            "YRanges": tlagen.Raw("{<<1, %d>>}" % ndays),
            "Folds": tlagen.Raw("{" + ", ".join("<<%d, %d>>" % f for f in folds) + "}")}
    inv = ["StepsDef", "NoStepBeforeWindow", "ObsShape"]
    return tlagen.mc_module("MC", "Tabular", defs), tlagen.cfg(defs, {"NDays": ndays, "Carrier": "weekdays"}, invariants=inv), inv


def model(tier, ndays, hol):
    defs = {"Holidays": set(hol), "Folds": tlagen.Raw("{<<0, 0>>}"),
            "Windows": {1, 2, 3} if tier == "quick" else {1, 2, 3, 4, 5},
            "Strides": {0, 2} if tier == "quick" else {0, 1, 2, 3},
            "Bounds": tlagen.Raw("{<<0, 0>>, <<5, 0>>, <<0, %d>>, <<4, %d>>, <<0, %d>>}" % (ndays - 4, ndays - 2, max(hol) if hol else ndays - 3))}
    bd = [d for d in range(1, ndays + 1) if (d - 1) % 7 < 5]
    mx = [[], [bd[2]], [bd[7]]] if tier == "quick" else [[]] + [[d] for d in bd[1:12:2]] + [[bd[3], bd[4]]]
    my = [[], [bd[5]], [bd[8]]] if tier == "quick" else [[]] + [[d] for d in bd[2:13:2]] + [[bd[6], bd[7]]]
    defs["MissX"] = tlagen.Raw("{" + ", ".join(tlagen.tla(set(x)) for x in mx) + "}")
    defs["MissY"] = tlagen.Raw("{" + ", ".join(tlagen.tla(set(x)) for x in my) + "}")
    hs = sorted(hol)
    # price tables that end (or start) exactly on an exchange holiday are included
    yr = [(1, ndays), (3, ndays - 1), (1, ndays - 5)] + [(1, h) for h in hs[-1:]] + [(h, ndays) for h in hs[:1]]
    defs["YRanges"] = tlagen.Raw("{" + ", ".join("<<%d, %d>>" % r for r in yr) + "}")
    plain = {"NDays": ndays, "Carrier": "weekdays"}
    inv = ["StepsDef", "NoStepBeforeWindow", "ObsShape"]
    return tlagen.mc_module("MC", "Tabular", defs), tlagen.cfg(defs, plain, invariants=inv), inv


def tables(p, seed_shift=0.0, hole=False):
    """DataFrames whose cell values encode (day, column) so that any row mix-up is visible"""
    import pandas as pd
    dx, dy = sorted(p["dx"]), sorted(p["dy"])
    X = pd.DataFrame({"f0": [((d * 37) % 83) / 20.0 - 2.0 + seed_shift for d in dx],
                      "f1": [((d * 11) % 19) / 4.0 - 2.0 for d in dx]}, index=pd.DatetimeIndex([D(d) for d in dx]))
    Y = pd.DataFrame({"AAA": [100.0 + ((d * 7) % 13) for d in dy], "BBB": [50.0 + ((d * 5) % 11) for d in dy]},
                     index=pd.DatetimeIndex([D(d) for d in dy]))
    if hole and len(dy) >= 6:
        # a missing value that is NOT aligned across assets: BBB skips a print on a date where AAA has one
        Y.iloc[len(dy) // 2 + 1, 1] = float("nan")
    # the reference rate path crosses zero: 0 and negative values are rates like any other
    rate = pd.Series([[0.02, 0.01, 0.0, -0.0025, 0.005][d % 5] for d in dy], index=Y.index, name="rate")
    return X, Y, rate


def build(p, transformer=None, X=None, Y=None, rate=None, transformer_end=None, spread=0.002, calendar="NYSE"):
    from . import impl  # noqa: F401
    from tradingenv.env import TradingEnvXY
    if X is None:
        X, Y, rate = tables(p)
    kw = {}
    if p["start"]:
        kw["start"] = D(p["start"])
    if p["end"]:
        kw["end"] = D(p["end"])
    if transformer_end is not None:
        kw["transformer_end"] = transformer_end
    fold = tuple(p.get("fold") or (0, 0))
    if fold != (0, 0):
        kw["folds"] = {"training-set": [D(1), D(fold[0]) - timedelta(seconds=1)], "test-set": [D(fold[0]), D(fold[1])]}
    if _CLK["intraday"]:
        kw["latency"] = 60.0          # feature rows stamped 30 s after a price stamp fall inside the latency window
    return TradingEnvXY(X, Y, transformer=transformer, window=p["w"], stride=(p["s"] or None), spread=spread, rate=rate,
                        steps_delay=0, margin=0.0, fee=0.0, markup=0.0, calendar=calendar, **kw)


def replay_chunk(ctx, texts):
    from . import impl
    out = {"n": 0, "ops": 0, "fails": [], "classes": {}, "sample": None}
    trs = [None, "z-score", "yeo-johnson"]
    _CLK["intraday"] = bool(ctx.get("intraday"))
    _CLK["day1"] = datetime(*ctx["day1"]) if ctx.get("day1") else DAY1
    for text in texts:
        s = tlaval.parse_state(text)
        p, o = s["p"], s["out"]
        if not o["ok"] or len(o["steps"]) < 1:
            continue
        tr = trs[(len(p["dx"]) + p["w"] + out["n"]) % 3]
        bad = None
        if ctx.get("prebuild"):
            # another environment with another exchange calendar is created first in the same process
            impl.classify(lambda: build(p, None, calendar=ctx["prebuild"]))
        Xh, Yh, rateh = tables(p, hole=True)
        res, env = impl.classify(lambda: build(p, tr, Xh, Yh.copy(), rateh, calendar=ctx.get("calendar", "NYSE")))
        case = {"kind": "tabular", "p": {k: (sorted(v) if isinstance(v, frozenset) else v) for k, v in p.items()}, "transformer": tr}
        if res != "ok":
            bad = ("construct", "TradingEnvXY could not be built: %r" % (env,))
        else:
            X = env.X
            px = [NUM(t) for t in X.index]
            if px != list(o["px"]):
                out["fails"].append({"clause": "table", "key": "table/index", "detail": "published table index %s, model %s" % (px[:6], list(o["px"])[:6]), "case": case})
            Xv = X.to_numpy()
            _, Y0, rate0 = tables(p, hole=True)
            fold = tuple(p.get("fold") or (0, 0))
            r1, obs = impl.classify(lambda: env.reset("test-set") if fold != (0, 0) else env.reset())
            k = 0
            shape = (len(o["rows"][0]), Xv.shape[1])
            while bad is None and r1 == "ok":
                now = env.now()
                day = NUM(now)
                out["ops"] += 1
                if k >= len(o["steps"]) or day != o["steps"][k]:
                    ok_date = day in p["dy"] and day not in ctx["holidays"]
                    nrows = sum(1 for d in px if d <= day)
                    if not ok_date:
                        bad = ("steps", "step on %s (day %d), which is %s" % (now.date(), day, "an exchange holiday" if day in ctx["holidays"] else "not a date of the price table"))
                    elif nrows < p["w"]:
                        bad = ("window_short", "step on day %d with only %d rows of the published table available (window %d)" % (day, nrows, p["w"]))
                    else:
                        out["fails"].append({"clause": "table", "key": "table/steps", "detail": "step %d on day %d, model %s" % (k, day, list(o["steps"])[k:k + 1]), "case": case})
                        break
                    break
                a = np.asarray(obs, dtype=float)
                rows = [px.index(d) for d in px if d <= day][-p["w"]:]
                if p["s"]:
                    rows = rows[::-p["s"]][::-1]
                exp = Xv[rows]
                if a.shape != exp.shape or a.shape != env.observation_space.shape:
                    bad = ("shape", "observation shape %s at day %d, declared %s, window rows %s" % (a.shape, day, env.observation_space.shape, exp.shape))
                elif not np.array_equal(a, exp):
                    bad = ("obs", "observation at day %d is not the last %d rows (stride %s) of the published table dated <= the step: got rows %s, expected table rows of days %s" % (
                        day, p["w"], p["s"] or None, a.tolist(), [px[i] for i in rows]))
                elif np.abs(a).max() > 5.0 + 1e-12:
                    bad = ("bounds", "observation outside the declared bounds at day %d" % day)
                else:
                    # quotes and rate at this date
                    ydays = [d for d in sorted(p["dy"]) if d <= day]
                    for col, sym in ((0, "AAA"), (1, "BBB")):
                        given = [float(Y0.iloc[list(sorted(p["dy"])).index(d), col]) for d in ydays]
                        given = [g for g in given if g == g]           # an asset without a print on a date keeps its last price
                        if not given:
                            continue
                        price = given[-1]
                        book = env.exchange[sym]
                        if abs(book.bid_price - price * (1 - 0.001)) > 1e-9 or abs(book.ask_price - price * (1 + 0.001)) > 1e-9:
                            bad = ("quotes", "day %d %s quoted %s/%s, given price %s widened by the spread is %s/%s" % (
                                day, sym, book.bid_price, book.ask_price, price, price * 0.999, price * 1.001))
                            break
                    if bad is None:
                        rt = env.exchange[env._broker_fees.interest_rate].mid_price
                        er = float(rate0.iloc[list(sorted(p["dy"])).index(ydays[-1])])
                        if abs(rt - er) > 1e-12:
                            bad = ("rate", "day %d reference rate %s, given %s" % (day, rt, er))
                k += 1
                if bad is None:
                    r2, val = impl.classify(lambda: env.step(np.array([0.25, -0.25])))
                    if r2 != "ok":
                        if k < len(o["steps"]):
                            out["fails"].append({"clause": "table", "key": "table/short", "detail": "episode ended after %d steps (%r), model has %d" % (k, val, len(o["steps"])), "case": case})
                        break
                    obs = val[0]
                    if val[2] and k < len(o["steps"]) - 0:
                        # the landing of the final step is still observed in the next loop iteration
                        pass
                    if val[2]:
                        # last observation of the episode
                        now = env.now()
                        day = NUM(now)
                        if k >= len(o["steps"]) or day != o["steps"][k]:
                            if day not in p["dy"] or day in ctx["holidays"]:
                                bad = ("steps", "last step on %s (day %d), which is %s" % (now.date(), day, "an exchange holiday" if day in ctx["holidays"] else "not a date of the price table"))
                            elif sum(1 for d in px if d <= day) < p["w"]:
                                bad = ("window_short", "last step on day %d before a full window is available" % day)
                            else:
                                out["fails"].append({"clause": "table", "key": "table/steps", "detail": "last step on day %d, model %s" % (day, list(o["steps"])[k:k + 1]), "case": case})
                        else:
                            a = np.asarray(obs, dtype=float)
                            rows = [px.index(d) for d in px if d <= day][-p["w"]:]
                            if p["s"]:
                                rows = rows[::-p["s"]][::-1]
                            if a.shape != Xv[rows].shape or not np.array_equal(a, Xv[rows]):
                                bad = ("obs", "final observation at day %d is not the window of the published table" % day)
                        break
        out["n"] += 1
        kk = "w%d/s%d/%s" % (p["w"], p["s"], tr)
        out["classes"][kk] = out["classes"].get(kk, 0) + 1
        if out["sample"] is None:
            out["sample"] = {"x_days": sorted(p["dx"])[:8], "y_days": sorted(p["dy"])[:8], "window": p["w"], "stride": p["s"],
                             "steps": list(o["steps"])[:6], "rows_first_step": list(o["rows"][0])}
        if bad and len(out["fails"]) < 30:
            out["fails"].append({"clause": bad[0], "key": "%s/w%d/s%d" % (bad[0], p["w"], p["s"]), "detail": bad[1], "case": case})
    return out


def state_window_chunk(ctx, texts):
    """StateWindow.tla behaviours replayed on a real tradingenv.state.State"""
    from . import impl
    from tradingenv.state import State
    from tradingenv.events import EventNewObservation
    out = {"n": 0, "ops": 0, "fails": [], "classes": {}, "sample": None}
    for text in texts:
        s = tlaval.parse_state(text)
        if s["n"] != ctx["maxops"]:
            continue
        cfg, ops = s["cfg"], list(s["hist"])
        st = State(["a", "b"], window=cfg["w"], stride=(cfg["s"] or None), max_=100.0)
        bad = None
        for i, op in enumerate(ops):
            out["ops"] += 1
            if op["op"] == "observe":
                o, v = impl.classify(lambda: st.process_EventNewObservation(
                    EventNewObservation(DAY1 + timedelta(minutes=i), {"a": float(op["v"]), "b": 10.0 * op["v"]})))
            else:
                o, v = impl.classify(lambda: st.reset())
            if o != "ok":
                bad = (i, "%s raised %r" % (op["op"], v))
                break
            exp = [[float(x), 10.0 * x] for x in op["rows"]]
            if not exp:
                continue          # nothing observed yet: the observation is not defined
            o2, got = impl.classify(lambda: st(verify=True))
            if o2 != "ok" or np.asarray(got).tolist() != exp:
                bad = (i, "after %s the state is %r, the last %d observations thinned by stride %s are %s" % (
                    [(x["op"], x["v"]) for x in ops[: i + 1]], got if o2 != "ok" else np.asarray(got).tolist(), cfg["w"], cfg["s"] or None, exp))
                break
            if tuple(np.asarray(got).shape) != tuple(st.space.shape):
                bad = (i, "state of shape %s, declared %s" % (np.asarray(got).shape, st.space.shape))
                break
        out["n"] += 1
        k = "w%d/s%d" % (cfg["w"], cfg["s"])
        out["classes"][k] = out["classes"].get(k, 0) + 1
        if bad and len(out["fails"]) < 20:
            out["fails"].append({"clause": "state_window", "key": "state_window/w%d/s%d" % (cfg["w"], cfg["s"]), "detail": bad[1],
                                 "case": {"kind": "state-window", "cfg": cfg, "ops": [(x["op"], x["v"]) for x in ops[: bad[0] + 1]]}})
    return out


def c18(tier, seed):
    rep = core.Report("C18", tier, seed)
    ndays = 19 if tier == "quick" else 24
    hol = holidays_in(ndays)
    rep.assumptions = [
        "tables indexed by business days of %s .. %s (exchange holidays in the range, read from pandas_market_calendars: days %s); "
        "at most one business day missing from each table; the price table covers any sub-range" % (D(1).date(), D(ndays).date(), sorted(hol)),
        "the oracle for observation VALUES is the environment's own published table env.X (so transformer numerics are not "
        "modelled); cell values encode (day, column)",
        "windows 1..3 (1..5 thorough), strides none/2 (none/1/2/3 thorough), start / end bounds given or not",
    ]
    module, cfg, inv = model(tier, ndays, hol)
    owned = {c for c, ps in CLAUSE_PROPS.items() if "C18" in ps}
    explore.explore_and_replay(rep, "tabular", module, cfg, ("harness.tabular_check", "replay_chunk"), {"holidays": hol},
                               owned, inv, [], chunk=60, workers=8)
    # an episode run in a later fold with a long strided window: the rows replayed at reset must cover the whole window
    nd = 75
    h2 = holidays_in(nd)
    module, cfg, inv = model_small(nd, h2, {12, 5}, {4, 0}, [(0, 0), (61, 75), (64, 72)])
    explore.explore_and_replay(rep, "tabular-folds", module, cfg, ("harness.tabular_check", "replay_chunk"), {"holidays": h2},
                               owned, inv, [], chunk=2, workers=2)
    # the windowed State on its own (StateWindow.tla; every path, no VIEW): the queue is the last `window` observations of the
    # object's life padded with the first one, parse() thins it by the stride from the most recent row backwards
    mo = 6 if tier == "quick" else 7
    defs = {"Windows": {1, 2, 3, 4}, "Strides": {0, 2, 3}, "Vals": {1, 2, 3}}
    inv = ["Shape", "Latest", "WindowDef"]
    explore.explore_and_replay(rep, "state-window", tlagen.mc_module("MC", "StateWindow", defs),
                               tlagen.cfg(defs, {"MaxOps": mo}, invariants=inv), ("harness.tabular_check", "state_window_chunk"),
                               {"maxops": mo}, owned, inv, [], chunk=400, workers=4)
    # a range containing a one-off closure that is not in the exchange's holiday RULES (NYSE, 2018-12-05: national day of
    # mourning): day 1 is Monday 2018-11-26, the closure is day 10
    _CLK["day1"] = datetime(2018, 11, 26)
    try:
        nd = 19
        ha = holidays_in(nd)
        module, cfg, inv = model_small(nd, ha, {1, 2}, {0}, [(0, 0), (8, 15)])
    finally:
        _CLK["day1"] = DAY1
    explore.explore_and_replay(rep, "tabular-adhoc-closure", module, cfg, ("harness.tabular_check", "replay_chunk"),
                               {"holidays": ha, "day1": (2018, 11, 26)}, owned, inv, [], chunk=1, workers=2)
    # finer than daily: prices on the hour, feature rows on the hour and 30 s later (inside a latency of 60 s), episodes run
    # from the first stamp and in a later fold.  Index numbers are ranks (even: on the hour, odd: 30 s past the hour before).
    nt = 17
    defs = {"Holidays": set(), "Windows": {1, 2, 3}, "Strides": {0, 2}, "Bounds": tlagen.Raw("{<<0, 0>>}"),
            "MissX": tlagen.Raw("{{}, {5}, {6, 7}}"), "MissY": tlagen.Raw("{%s}" % tlagen.tla(set(range(1, nt + 1, 2)))),
            "YRanges": tlagen.Raw("{<<2, %d>>}" % (nt - 1)), "Folds": tlagen.Raw("{<<0, 0>>, <<10, 16>>, <<8, 14>>}")}
    inv = ["StepsDef", "NoStepBeforeWindow", "ObsShape"]
    module, cfg = tlagen.mc_module("MC", "Tabular", defs), tlagen.cfg(defs, {"NDays": nt, "Carrier": "all"}, invariants=inv)
    explore.explore_and_replay(rep, "tabular-intraday", module, cfg, ("harness.tabular_check", "replay_chunk"),
                               {"holidays": set(), "intraday": True}, owned, inv, [], chunk=4, workers=2)
    # two environments with different exchange calendars in one process: each steps by its own calendar
    nd = 40
    for cal, other in (("NYSE", "LSE"), ("LSE", "NYSE")):
        hc = holidays_in(nd, cal)
        module, cfg, inv = model_small(nd, hc, {1, 2}, {0}, [(0, 0)])
        explore.explore_and_replay(rep, "tabular-%s-after-%s" % (cal, other), module, cfg, ("harness.tabular_check", "replay_chunk"),
                                   {"holidays": hc, "calendar": cal, "prebuild": other}, owned, inv, [], chunk=1, workers=2)
    return rep.finish()


# ------------------------------------------------------------------------------------------ C02, tabular half
def _run(env, n):
    """one entry per landing (reset, then every step): what was returned by the call that landed there and what
    the account looked like then"""
    from . import impl
    import struct
    hx = lambda x: struct.pack("<d", float(x)).hex()   # noqa: E731

    def entry(obs, reward, done):
        b = copy.deepcopy(env.broker)
        o1, v1 = impl.classify(lambda: b.net_liquidation_value(False))
        tr = env.broker.track_record
        return {"now": str(env.now()), "obs": np.asarray(obs, dtype=float).tobytes().hex(),
                "reward": None if reward is None else hx(reward), "done": done,
                "nlv": hx(v1) if o1 == "ok" else o1,
                "holdings": sorted((c.symbol, hx(q)) for c, q in env.broker.holdings_quantity.items()),
                "track": [(str(tr[i].time), hx(tr[i].context_pre.nlv), hx(tr[i].context_post.nlv)) for i in range(len(tr))]}
    r, obs = impl.classify(lambda: env.reset())
    if r != "ok":
        return [{"now": "error", "obs": repr(obs)}]
    outs = [entry(obs, None, None)]
    for k in range(n):
        a = np.array([0.5, -0.25]) if k % 2 == 0 else np.array([-0.25, 0.75])
        r, val = impl.classify(lambda: env.step(a))
        if r != "ok":
            outs.append({"now": "error", "obs": repr(val)})
            break
        outs.append(entry(val[0], val[1], bool(val[2])))
        if val[2]:
            break
    return outs


def lookahead(rep, tier, seed):
    """tabular half of C02: rows of the feature and price tables dated after t are altered (transformer and reward scale
    fitted on data up to some date <= t); nothing returned or recorded up to t may change."""
    from . import impl
    import pandas as pd
    ndays = 33
    bd = [d for d in range(1, ndays + 1) if (d - 1) % 7 < 5]
    n = 0
    cases = []
    for w in (1, 3):
        for s in (0, 2):
            for tr in ("z-score", "yeo-johnson", None):
                for cut_i in (8, 11, 14):
                    for tend_off in (0, 2):
                        for xh in (0, 16):
                            cases.append((w, s, tr, cut_i, tend_off, xh))
    if tier == "quick":
        cases = cases[::3]
    for (w, s, tr, cut_i, tend_off, xh) in cases:
        p = {"dx": set(bd) - {bd[4]}, "dy": set(bd[2:]) - {bd[9]}, "w": w, "s": s, "start": 0, "end": 0}
        cut = bd[cut_i]
        tend = D(bd[cut_i - tend_off])
        X, Y, rate = tables(p)
        # a feature that starts late: leading gap, first value dated after the cut
        late = [float("nan") if d <= bd[cut_i + 2] else 0.5 + (d % 7) / 10.0 for d in sorted(p["dx"])]
        if tr != "yeo-johnson":      # a power transformer cannot be fitted on a column that is empty up to transformer_end
            X["f2"] = late
        if xh:
            # features published in the afternoon (16:00) of their date, prices stamped at midnight: the row of a date is not
            # known at that date's timestep
            X.index = X.index + timedelta(hours=xh)
        X2, Y2 = X.copy(), Y.copy()
        after = X2.index > D(cut)
        if "f2" in X2.columns:
            X2.loc[X2.index > D(bd[cut_i + 2]), "f2"] = -1.25
        X2.loc[after, "f0"] = X2.loc[after, "f0"] * -1.5 + 0.7
        X2.loc[after, "f1"] = 1.9
        aftery = Y2.index > D(cut)
        Y2.loc[aftery, "AAA"] = Y2.loc[aftery, "AAA"] * 1.3
        Y2.loc[aftery, "BBB"] = 71.0
        oa, ea = impl.classify(lambda: build(p, tr, X, Y, rate, transformer_end=tend))
        ob, eb = impl.classify(lambda: build(p, tr, X2, Y2, rate, transformer_end=tend))
        n += 1
        case = {"kind": "tabular-lookahead", "window": w, "stride": s, "transformer": tr, "cut_day": cut, "transformer_end": str(tend.date()),
                "feature_rows_stamped_at_hour": xh}
        if oa != "ok" or ob != "ok":
            rep.violation("tabular", "tabular/construct", "TradingEnvXY could not be built: %r %r" % (ea, eb), case)
            continue
        ra, rb = _run(ea, 40), _run(eb, 40)
        for xa, xb in zip(ra, rb):
            if xa["now"] == "error" or xa["now"] > str(D(cut)):
                break
            if xa != xb:
                diff = [k for k in xa if xa[k] != xb.get(k)]
                rep.violation("tabular", "tabular/%s/%s" % (diff[0], tr), "rows dated after %s were altered (transformer fitted up to %s), yet "
                              "the %s at %s differs" % (D(cut).date(), tend.date(), diff[0], xa["now"]), case)
                break
    rep.traces += n
    rep.evaluations += 2 * n
    rep.count("tabular_pairs", n)
    rep.sample({"tabular_pair": {"window": cases[0][0], "stride": cases[0][1], "transformer": cases[0][2],
                                 "cut_day": bd[cases[0][3]]}})
