"""Parser for TLA+ values as printed by TLC (state dumps, error traces, PrintT).

TLA+ value            Python value
  123, -4             int
  "abc"               str
  TRUE / FALSE        bool
  <<a, b>>            tuple
  {a, b}              frozenset
  [k |-> v, ...]      dict (str keys)
  (k :> v @@ ...)     dict (any hashable keys)
  a..b                tuple(range(a, b+1)) as a frozenset
  ident               ModelValue(str)
"""
import re


class ModelValue(str):
    pass


_TOK = re.compile(r"""\s*(?:
    (?P<int>-?\d+)|
    (?P<str>"(?:[^"\\]|\\.)*")|
    (?P<ltup><<)|(?P<rtup>>>)|
    (?P<mapsto>\|->)|(?P<colgt>:>)|(?P<atat>@@)|(?P<dots>\.\.)|
    (?P<id>[A-Za-z_][A-Za-z0-9_]*)|
    (?P<sym>[\[\]{}(),])
)""", re.X)


def _tokens(s):
    pos = 0
    n = len(s)
    out = []
    while pos < n:
        m = _TOK.match(s, pos)
        if not m:
            if s[pos:].strip() == "":
                break
            raise ValueError("cannot tokenise TLA+ value at %r" % s[pos:pos + 40])
        pos = m.end()
        k = m.lastgroup
        out.append((k, m.group(k)))
    return out


class _P:
    def __init__(self, toks):
        self.t = toks
        self.i = 0

    def peek(self):
        return self.t[self.i] if self.i < len(self.t) else (None, None)

    def eat(self, kind=None, val=None):
        k, v = self.peek()
        if kind and k != kind or val and v != val:
            raise ValueError("expected %s %s, got %s %s" % (kind, val, k, v))
        self.i += 1
        return v

    def value(self):
        k, v = self.peek()
        if k == "int":
            self.i += 1
            x = int(v)
            if self.peek()[0] == "dots":
                self.i += 1
                hi = int(self.eat("int"))
                return frozenset(range(x, hi + 1))
            return x
        if k == "str":
            self.i += 1
            return bytes(v[1:-1], "utf-8").decode("unicode_escape")
        if k == "id":
            self.i += 1
            if v == "TRUE":
                return True
            if v == "FALSE":
                return False
            return ModelValue(v)
        if k == "ltup":
            self.i += 1
            items = []
            while self.peek()[0] != "rtup":
                items.append(self.value())
                if self.peek() == ("sym", ","):
                    self.i += 1
            self.eat("rtup")
            return tuple(items)
        if k == "sym" and v == "{":
            self.i += 1
            items = []
            while self.peek() != ("sym", "}"):
                items.append(self.value())
                if self.peek() == ("sym", ","):
                    self.i += 1
            self.eat("sym", "}")
            return frozenset(_freeze(x) for x in items)
        if k == "sym" and v == "[":
            self.i += 1
            d = {}
            while self.peek() != ("sym", "]"):
                key = self.eat("id")
                self.eat("mapsto")
                d[key] = self.value()
                if self.peek() == ("sym", ","):
                    self.i += 1
            self.eat("sym", "]")
            return d
        if k == "sym" and v == "(":
            self.i += 1
            d = {}
            while True:
                key = self.value()
                self.eat("colgt")
                d[_freeze(key)] = self.value()
                if self.peek()[0] == "atat":
                    self.i += 1
                    continue
                break
            self.eat("sym", ")")
            return d
        raise ValueError("unexpected token %s %s" % (k, v))


def _freeze(x):
    if isinstance(x, dict):
        return tuple(sorted((k, _freeze(v)) for k, v in x.items()))
    if isinstance(x, list):
        return tuple(_freeze(v) for v in x)
    return x


def parse(s):
    p = _P(_tokens(s))
    v = p.value()
    if p.i != len(p.t):
        raise ValueError("trailing tokens in TLA+ value")
    return v


_STATE = re.compile(r"^State \d+:.*$", re.M)
_VAR = re.compile(r"^/\\ (\w+) = ", re.M)


def parse_state(text):
    """'/\\ v1 = ...\n/\\ v2 = ...' -> dict."""
    out = {}
    ms = list(_VAR.finditer(text))
    for i, m in enumerate(ms):
        end = ms[i + 1].start() if i + 1 < len(ms) else len(text)
        out[m.group(1)] = parse(text[m.end():end])
    return out


def iter_dump(path):
    """Yield one dict per state of a TLC -dump file."""
    buf = []
    with open(path) as f:
        for line in f:
            if line.startswith("State "):
                if buf:
                    yield parse_state("".join(buf))
                buf = []
            else:
                buf.append(line)
    if buf and "".join(buf).strip():
        yield parse_state("".join(buf))


def parse_trace(text):
    """Error trace printed by TLC ('State 1: <Initial predicate>' ...) -> list of (action label, dict)."""
    out = []
    parts = re.split(r"^State (\d+): (.*)$", text, flags=re.M)
    # parts = [pre, num, label, body, num, label, body ...]
    for i in range(1, len(parts) - 2, 3):
        body = parts[i + 2]
        j = body.find("\n\n")
        if j >= 0:
            body = body[:j]
        try:
            out.append((parts[i + 1].strip(), parse_state(body)))
        except ValueError:
            break
    return out
