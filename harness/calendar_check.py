"""C19 (futures calendars, exhaustive over the whole input domain) and the lead-contract half of C11,
both decided on Calendar.tla."""
from datetime import datetime, timedelta

from . import tlc, tlagen, tlaval, core

EPOCH = datetime(1970, 1, 1)
CLASSES = ["ES", "NK", "VX", "ZQ", "ZT", "ZF", "ZN", "ZB"]


def _cls(name):
    from . import impl  # noqa: F401
    import tradingenv.contracts as c
    return getattr(c, name)


def day(n):
    return EPOCH + timedelta(days=int(n))


def c19(tier, seed):
    from . import impl
    from tradingenv.contracts import FutureChain
    from tradingenv.events import EventContractDiscontinued
    rep = core.Report("C19", tier, seed)
    rep.exhaustive = True
    rep.assumptions = [
        "the whole input domain is enumerated: 8 built-in classes x years 1970..2099 x 12 months",
        "a contract's last-trading date is only required to precede its expiry (C19) - the value the code uses is compared with "
        "the model's mechanism rule and a difference that keeps it before the expiry is reported as drift, not as a violation",
        "which (year, month) pairs a chain lists for a span is taken from the code (pandas date_range); ordering, symbols and "
        "events of what is listed are checked",
    ]
    years = list(range(1970, 2100))
    defs = {"Years": set(years), "TabClasses": set(CLASSES)}
    inv = ["ExpiryRule", "CutoffBeforeExpiry", "ChainOrdered", "SymbolRule"]
    module = tlagen.mc_module("MC", "CalendarTable", defs)
    cfg = tlagen.cfg(defs, {}, invariants=inv, init="TabInit", next_="TabNext")
    res = tlc.run("MC", module, cfg, workers=8, dump=True, tag="C19")
    table = {}
    try:
        rep.add_model("calendar-table", res, inv, [])
        if res.violated:
            rep.violation("model:" + res.violated, "model/calendar/" + res.violated,
                          "TLC: invariant %s violated by the calendar model" % res.violated, {"tlc": (res.trace or "")[:2000]})
            return rep.finish()
        n = 0
        for s in tlaval.iter_dump(res.dump_path):
            p, row = s["p"], s["row"]
            table[(p["cls"], p["y"], p["m"])] = row
            n += 1
            out, f = impl.classify(lambda: _cls(p["cls"])(p["y"], p["m"]))
            args = "%s(%d, %d)" % (p["cls"], p["y"], p["m"])
            case = {"kind": "future", "cls": p["cls"], "year": p["y"], "month": p["m"]}
            if out != "ok":
                rep.violation("construct", "construct/%s" % p["cls"], "%s raised %r" % (args, f), case)
                continue
            if f.expiry != day(row["expiry"]):
                rep.violation("expiry", "expiry/%s" % p["cls"], "%s expires %s, rule gives %s" % (
                    args, f.expiry, day(row["expiry"]).date()), case)
            if f.symbol != row["symbol"]:
                rep.violation("symbol", "symbol/%s" % p["cls"], "%s symbol %s, rule gives %s" % (args, f.symbol, row["symbol"]), case)
            ltd = f.last_trading_date
            ltd = ltd.to_pydatetime() if hasattr(ltd, "to_pydatetime") else ltd
            if not ltd < f.expiry:
                rep.violation("cutoff", "cutoff/%s" % p["cls"], "%s last trading date %s is not before its expiry %s" % (
                    args, ltd, f.expiry), case)
            elif ltd != day(row["cutoff"]) and len(rep.drift) < 20:
                rep.drift.append({"clause": "cutoff-mechanism", "detail": "%s last trading date %s, model %s" % (
                    args, ltd, day(row["cutoff"]).date())})
            # the shared simulation clock may stand anywhere when the events are generated (an earlier episode in the same
            # process leaves it wherever it ended): before the contract's life, inside it, after its expiry
            for clock in (datetime.min, f.expiry - timedelta(days=40), f.expiry + timedelta(days=400)):
                ev = _under_clock(clock, f.make_events)
                if len(ev) != 1 or not isinstance(ev[0], EventContractDiscontinued) or ev[0].time != f.expiry \
                        or ev[0].contract is not f:
                    rep.violation("events", "events/%s" % p["cls"], "%s make_events() = %r with the simulation clock at %s, expected one "
                                  "discontinuation at its expiry" % (args, ev, clock), case)
                    break
            if n <= 2:
                rep.sample({"contract": args, "expiry": str(day(row["expiry"]).date()), "cutoff": str(day(row["cutoff"]).date()),
                            "symbol": row["symbol"]})
        rep.traces += n
        rep.evaluations += n
        rep.count("contracts_compared", n)
    finally:
        tlc.rm_workdir(res.workdir)
    # ---------------------------------------------------------------- chains over spans
    spans = (1, 2, 5) if tier == "quick" else (1, 2, 3, 4, 5)
    starts = range(1970, 2095, 7 if tier == "quick" else 1)
    nch = 0
    for cls in CLASSES:
        for y0 in starts:
            for ln in spans:
                y1 = min(2099, y0 + ln - 1)
                # span ends: the first of December, and two instants that are themselves listing dates of the quarterly and
                # monthly cycles (the last day of a quarter)
                for month, endfmt in [(mo, e) for mo in ((0, 1) if tier == "quick" else (0, 1, 2)) for e in ("%d-12", "%d-12-31", "%d-03-31")]:
                    end = endfmt % y1
                    out, ch = impl.classify(lambda: FutureChain(_cls(cls), "%d-01" % y0, end, month=month))
                    case = {"kind": "chain", "cls": cls, "start": y0, "end": end, "month": month}
                    nch += 1
                    if out != "ok":
                        rep.violation("chain_construct", "chain_construct/%s" % cls, "FutureChain(%s, %d-01, %d-12) raised %r" % (cls, y0, y1, ch), case)
                        continue
                    cs = ch.contracts
                    if not cs:
                        rep.violation("chain_empty", "chain_empty/%s" % cls, "FutureChain(%s, %d-01, %d-12) lists no contract" % (cls, y0, y1), case)
                        continue
                    for a, b in zip(cs, cs[1:]):
                        if not (a.expiry < b.expiry and a.last_trading_date < b.last_trading_date):
                            rep.violation("chain_order", "chain_order/%s" % cls, "chain %s %d-%d lists %s before %s out of order" % (cls, y0, y1, a, b), case)
                            break
                    syms = [c.symbol for c in cs]
                    if len(set(syms)) != len(syms):
                        rep.violation("chain_symbols", "chain_symbols/%s" % cls, "chain %s %d-%d repeats a symbol" % (cls, y0, y1), case)
                    for c in cs:
                        row = table.get((cls, c.expiry.year, c.expiry.month))
                        if row is None or c.expiry != day(row["expiry"]) or c.symbol != row["symbol"]:
                            rep.violation("chain_member", "chain_member/%s" % cls, "chain %s %d-%d lists %s (expiry %s) which is not the contract of that month" % (cls, y0, y1, c, c.expiry), case)
                            break
                    for clock in (datetime.min, cs[len(cs) // 2].expiry, cs[-1].expiry + timedelta(days=30)):
                        ev = _under_clock(clock, ch.make_events)
                        if sorted((e.time, e.contract.symbol) for e in ev) != sorted((c.expiry, c.symbol) for c in cs):
                            rep.violation("chain_events", "chain_events/%s" % cls, "chain %s %d-%d: discontinuation events do not match one per "
                                          "contract at its expiry (simulation clock at %s)" % (cls, y0, y1, clock), case)
                            break
                    # the same chain built from an explicit list of contracts given in another order (reversed, or interleaved
                    # across years): the chain lists the same contracts in expiry order whatever order they were given in
                    if month == 0 and len(cs) >= 2:
                        for perm in (list(reversed(cs)), cs[1::2] + cs[0::2]):
                            o2, ch2 = impl.classify(lambda: FutureChain(contracts=list(perm)))
                            nch += 1
                            if o2 != "ok":
                                rep.violation("chain_construct", "chain_construct/%s" % cls, "FutureChain(contracts=[...]) raised %r" % (ch2,), case)
                                break
                            if [c.symbol for c in ch2.contracts] != syms or \
                                    list(getattr(ch2, "_last_trading_dates", [c.last_trading_date for c in cs])) != [c.last_trading_date for c in cs]:
                                rep.violation("chain_order", "chain_order/%s" % cls, "chain built from the contracts %s given out of order lists them as %s" % (
                                    [c.symbol for c in perm][:6], [c.symbol for c in ch2.contracts][:6]), case)
                                break
    rep.traces += nch
    rep.evaluations += nch
    rep.count("chains_compared", nch)
    return rep.finish()


def _under_clock(clock, fn):
    from tradingenv.contracts import AbstractContract
    saved = AbstractContract.now
    AbstractContract.now = clock
    try:
        return fn()
    finally:
        AbstractContract.now = saved


def lead_check(rep, tier):
    """C11 LeadDef / LeadMonotone: TLC computes the lead for every probe instant; compared with FutureChain.lead_contract."""
    from . import impl
    from tradingenv.contracts import FutureChain
    years = list(range(1998, 2028))
    stride = 7 if tier == "quick" else 1
    classes = ["ES", "NK", "VX", "ZN"] if tier == "quick" else CLASSES
    defs = {"LeadClasses": set(classes), "LeadYears": set(years), "Offsets": {0, 1, 2}}
    module = tlagen.mc_module("MC", "CalendarLead", defs)
    cfg = tlagen.cfg(defs, {"DayStride": stride}, invariants=["LeadLive"], init="LeadInit", next_="LeadNext")
    res = tlc.run("MC", module, cfg, workers=8, dump=True, tag="C11-lead", timeout=3600)
    try:
        rep.add_model("chain-lead", res, ["LeadLive"], [])
        if res.violated:
            rep.violation("model:LeadLive", "model/lead/LeadLive", "TLC: LeadLive violated", {"tlc": (res.trace or "")[:2000]})
            return
        chains = {}
        n = 0
        # probes grouped by instant: all the chains that have a probe at an instant are resolved one after the other at that
        # instant (several chains live side by side in one account), in an order that rotates from instant to instant
        by_now = {}
        for s in tlaval.iter_dump(res.dump_path):
            by_now.setdefault((s["q"]["now"][0], s["q"]["now"][1]), []).append(s)
        probes = []
        for k, key in enumerate(sorted(by_now)):
            group = sorted(by_now[key], key=lambda s: (s["q"]["cls"], s["q"]["off"]))
            r = k % len(group)
            probes.extend(group[r:] + group[:r])
        for s in probes:
            q, lead = s["q"], s["lead"]
            cls = q["cls"]
            if cls not in chains:
                # the chain lists exactly the model's (year, month) pairs (which months a span lists is pandas' business)
                out, ch = impl.classify(lambda: FutureChain(contracts=[_cls(cls)(y, m) for (y, m) in reversed(_listed(cls, years))]))
                if out != "ok":
                    rep.violation("chain_construct", "chain_construct/%s" % cls, "FutureChain(%s, ...) raised %r" % (cls, ch), {"cls": cls})
                    chains[cls] = None
                else:
                    chains[cls] = ch
            ch = chains[cls]
            if ch is None:
                continue
            now = day(q["now"][0]) + timedelta(seconds=q["now"][1])
            out, c = impl.classify(lambda: ch.lead_contract(now, month=q["off"]))
            n += 1
            case = {"kind": "lead", "cls": cls, "now": str(now), "offset": q["off"]}
            if lead == 0:
                if out == "ok":
                    # past the last listed contract: list indexing may wrap around; the property speaks of instants inside the span
                    pass
                continue
            exp_ym = _listed(cls, years)[lead - 1]
            if out != "ok":
                rep.violation("lead", "lead/%s/raise" % cls, "lead_contract(%s, month=%d) raised %r" % (now, q["off"], c), case)
                continue
            if (c.expiry.year, c.expiry.month) != exp_ym:
                rep.violation("lead", "lead/%s/off%d" % (cls, q["off"]), "chain %s at %s (offset %d) resolves to %s, the earliest "
                              "contract with last trading date > now is %s-%02d" % (cls, now, q["off"], c, exp_ym[0], exp_ym[1]), case)
            if q["off"] == 0 and not (c.last_trading_date > now):
                rep.violation("lead_live", "lead_live/%s" % cls, "resolved contract %s is past its last trading date %s at %s" % (
                    c, c.last_trading_date, now), case)
            if n <= 2:
                rep.sample({"chain": cls, "now": str(now), "offset": q["off"], "lead": "%d-%02d" % exp_ym})
        rep.traces += n
        rep.evaluations += n
        rep.count("lead_probes", n)
    finally:
        tlc.rm_workdir(res.workdir)


def _listed(cls, years):
    ms = list(range(1, 13)) if cls == "VX" else [3, 6, 9, 12]
    return [(y, m) for y in years for m in ms]
