"""C14 on Exchange.tla: (b) every state of the model replayed into a real Exchange, and
(c) random executions recorded from the real Exchange validated line by line by TLC (ExchangeTrace.tla)."""
import json
import math
import os
import random
from datetime import datetime, timedelta

from . import tlc, tlagen, tlaval, core, explore

CLAUSE_PROPS = {
    "quote": ["C14"], "dead": ["C14"], "history": ["C14"], "side": ["C14"], "alias": ["C14"], "string_key": ["C14"],
    "outcome": ["C14"], "trace": ["C14"],
}

# two worlds: "base" (two assets, a chain of two futures addressed by its lead) and "offset" (a chain of three futures
# addressed both by its lead, key CH, and one contract down the curve, key CH1 = FutureChain(..., month=1))
VARIANTS = {
    "base": {"contracts": ["A", "B", "F1", "F2"], "seq": ["F1", "F2"], "ltd": [3, 6], "times": list(range(1, 7)),
             "chains": {"CH": 0}, "quote_keys": ["A", "F1", "F2", "CH"]},
    "offset": {"contracts": ["A", "F1", "F2", "F3"], "seq": ["F1", "F2", "F3"], "ltd": [3, 6, 8], "times": [2, 3, 4, 6, 7],
               "chains": {"CH": 0, "CH1": 1}, "quote_keys": ["F2", "CH", "CH1"]},
}
CONTRACTS = VARIANTS["base"]["contracts"]
LTD = VARIANTS["base"]["ltd"]            # model times of the chain's last-trading instants
TIMES = VARIANTS["base"]["times"]


def keys_of(variant):
    v = VARIANTS[variant]
    return v["contracts"] + sorted(v["chains"]) + ["s:" + c for c in v["contracts"]]


_OBJECTS = {}


def _world(variant="base"):
    from . import impl  # noqa: F401
    from tradingenv.contracts import ETF, ES, FutureChain, AbstractContract
    from tradingenv.exchange import Exchange
    f1, f2, f3 = ES(2019, 3), ES(2019, 6), ES(2019, 9)
    l1, l2, l3 = f1.last_trading_date, f2.last_trading_date, f3.last_trading_date
    sec = timedelta(seconds=1)
    # model time -> real time: 0,1 before the first last-trading instant, 2 one second before, 3 exactly at it ...
    tmap = {0: datetime(2019, 1, 2), 1: datetime(2019, 2, 1), 2: l1 - sec, 3: l1, 4: l1 + sec, 5: l2 - sec, 6: l2,
            7: l2 + sec, 8: l3}
    # the contract and chain OBJECTS are created once per process and serve every replayed behaviour / recorded trace, each on
    # a fresh Exchange with the clock back at the start - what a second episode of an environment does: a contract is a key,
    # whatever it was resolved to in an earlier life of the process
    if variant not in _OBJECTS:
        if variant == "base":
            cs = {"A": ETF("A"), "B": ETF("B"), "F1": f1, "F2": f2}
            chain = {"CH": FutureChain(contracts=[f2, f1])}
        else:
            cs = {"A": ETF("A"), "F1": f1, "F2": f2, "F3": f3}
            chain = {"CH": FutureChain(contracts=[f2, f3, f1]), "CH1": FutureChain(contracts=[f3, f1, f2], month=1)}
        _OBJECTS[variant] = (cs, chain)
    cs, chain = _OBJECTS[variant]
    return Exchange(), cs, chain, tmap, AbstractContract


def _key_obj(k, cs, chain):
    if k in chain:
        return chain[k]
    if k.startswith("s:"):
        return cs[k[2:]].symbol
    return cs[k]


def _p(x):
    return -1 if (x is None or (isinstance(x, float) and math.isnan(x))) else x


def observe(ex, cs, chain, keys):
    """projection through every key; -2 everywhere when the key cannot be resolved"""
    out = {}
    for k in keys:
        try:
            b = ex[_key_obj(k, cs, chain)]
            h = b.history
            nh = len(h["time"])
            out[k] = {"bid": _p(b.bid_price), "ask": _p(b.ask_price), "alive": 1 if b.is_alive else 0, "nh": nh,
                      "hb": _p(h["bid_price"][-1]) if nh else -1, "ha": _p(h["ask_price"][-1]) if nh else -1,
                      "buy2": _p(2 * b.acq_price(1.0)), "sell2": _p(2 * b.acq_price(-3.0)),
                      "mid2": _p(2 * b.acq_price(0))}
            # liq is acq of the opposite sign
            if _p(2 * b.liq_price(2.0)) != out[k]["sell2"] or _p(2 * b.liq_price(-1.0)) != out[k]["buy2"]:
                out[k]["sell2"] = -99
        except Exception:  # noqa: BLE001
            out[k] = {f: -2 for f in ("bid", "ask", "alive", "nh", "hb", "ha", "buy2", "sell2", "mid2")}
    # the vector queries of the Exchange answer exactly what the books answer one by one
    import numpy as np
    ok = [k for k in keys if out[k]["bid"] != -2]
    objs = [_key_obj(k, cs, chain) for k in ok]
    try:
        vec = {"bid": ex.bid_prices(objs), "ask": ex.ask_prices(objs),
               "mid2": 2 * ex.mid_prices(objs), "buy2": 2 * ex.acq_prices(objs, np.full(len(ok), 0.5)),
               "sell2": 2 * ex.liq_prices(objs, np.full(len(ok), 0.25))}
        # (the quantities are what decides the side: a purchase of half a unit is a purchase, a whole number of units as well)
        whole = {"buy2": 2 * ex.acq_prices(objs, np.full(len(ok), 3.0)), "sell2": 2 * ex.acq_prices(objs, np.full(len(ok), -2.0)),
                 "mid2": 2 * ex.acq_prices(objs, np.zeros(len(ok)))}
        for i, k in enumerate(ok):
            for f, arr in whole.items():
                if _p(float(arr[i])) != out[k][f]:
                    out[k][f] = -98
        sp = ex.spreads(objs)
        for i, k in enumerate(ok):
            for f, arr in vec.items():
                if _p(float(arr[i])) != out[k][f]:
                    out[k][f] = -98          # vector query disagrees with the book
            exp_sp = -1 if out[k]["bid"] == -1 or out[k]["ask"] == -1 else out[k]["ask"] - out[k]["bid"]
            if _p(float(sp[i])) != exp_sp and out[k]["mid2"] >= -1:
                out[k]["mid2"] = -98
    except Exception:  # noqa: BLE001
        for k in ok:
            out[k]["bid"] = -97
    return out


def apply(ex, cs, chain, tmap, AC, op, state):
    from tradingenv.events import EventNBBO, EventContractDiscontinued
    from . import impl
    if op["op"] == "advance":
        state["now"] = op["t"]
        AC.now = tmap[op["t"]]
        return "ok"
    t = tmap[state["now"]]
    AC.now = t
    if op["op"] == "quote":
        out, _ = impl.classify(lambda: ex.process_EventNBBO(EventNBBO(t, _key_obj(op["k"], cs, chain),
                                                                      float(op["bid"]), float(op["ask"]))))
    else:
        out, _ = impl.classify(lambda: ex.process_EventContractDiscontinued(
            EventContractDiscontinued(t, _key_obj(op["k"], cs, chain))))
    return out


KEYS = keys_of("base")
FIELD_CLAUSE = {"bid": "quote", "ask": "quote", "alive": "dead", "nh": "history", "hb": "history", "ha": "history",
                "buy2": "side", "sell2": "side", "mid2": "side"}


def spec_obs(books, now, k, variant="base"):
    """mirror of ExchangeTrace!Obs on a dumped state (used by the spec -> code replay)"""
    v = VARIANTS[variant]
    if k in v["chains"]:
        idx = sum(1 for x in v["ltd"] if x <= now) + v["chains"][k]
        if idx >= len(v["seq"]):
            return None
        c = v["seq"][idx]
    elif k.startswith("s:"):
        c = k[2:]
    else:
        c = k
    b = books[c]
    h = b["hist"][-1] if b["hist"] else (-1, -1, -1)
    m2 = -1 if b["bid"] == -1 or b["ask"] == -1 else b["bid"] + b["ask"]
    return {"bid": b["bid"], "ask": b["ask"], "alive": 1 if b["alive"] else 0, "nh": len(b["hist"]), "hb": h[1], "ha": h[2],
            "buy2": -1 if b["ask"] == -1 else 2 * b["ask"], "sell2": -1 if b["bid"] == -1 else 2 * b["bid"], "mid2": m2}


def replay_chunk(ctx, texts):
    out = {"n": 0, "ops": 0, "fails": [], "classes": {}, "sample": None}
    for text in texts:
        s = tlaval.parse_state(text)
        ops = list(s["hist"])
        if not ops:
            continue
        variant = ctx.get("variant", "base")
        keys = keys_of(variant)
        ex, cs, chain, tmap, AC = _world(variant)
        saved = AC.now
        st = {"now": 0}
        AC.now = tmap[0]
        try:
            bad = None
            for i, op in enumerate(ops):
                o = apply(ex, cs, chain, tmap, AC, op, st)
                out["ops"] += 1
                if o != op["out"]:
                    bad = (i, "outcome", "op %s through key %s: outcome %s, spec %s" % (op["op"], op["k"], o, op["out"]))
                    break
            if bad is None:
                got = observe(ex, cs, chain, keys)
                for k in keys:
                    e = spec_obs(s["books"], s["gnow"], k, variant)
                    if e is None:
                        if got[k]["bid"] != -2:
                            bad = (len(ops) - 1, "alias", "chain key resolved past its last contract: %s" % got[k])
                        continue
                    for f, v in e.items():
                        if got[k][f] != v:
                            clause = FIELD_CLAUSE[f]
                            if k in chain:
                                clause = "alias"
                            elif k.startswith("s:"):
                                clause = "string_key"
                            bad = (len(ops) - 1, clause, "key %s field %s = %s, spec %s" % (k, f, got[k][f], v))
                            break
                    if bad:
                        break
        finally:
            AC.now = saved
        out["n"] += 1
        kk = ops[-1]["op"]
        out["classes"][kk] = out["classes"].get(kk, 0) + 1
        if out["sample"] is None and len(ops) >= 4:
            out["sample"] = ops
        if bad and len(out["fails"]) < 30:
            out["fails"].append({"clause": bad[1], "key": "%s/%s" % (bad[1], ops[bad[0]]["op"]), "detail": bad[2],
                                 "case": {"kind": "exchange", "ops": ops[: bad[0] + 1]}})
    return out


def chain_off(variant):
    return tlagen.Raw("[" + ", ".join("%s |-> %d" % kv for kv in sorted(VARIANTS[variant]["chains"].items())) + "]")


def model(depth, variant="base"):
    v = VARIANTS[variant]
    defs = {"Contracts": set(v["contracts"]), "ChainSeq": list(v["seq"]), "ChainLtd": list(v["ltd"]), "ChainOff": chain_off(variant),
            "Bids": {8, 12}, "Spreads": {0, 2} if variant == "base" else {2},
            "Times": set(v["times"]), "QuoteKeys": set(v["quote_keys"])}
    inv = ["LastQuoteWins", "DeadShowsNoPrice", "ChainAlias", "ExecSide"]
    props = ["Isolation", "DeadStaysDead", "HistoryAppendOnly", "LeadMonotone"]
    return (tlagen.mc_module("MC", "Exchange", defs),
            tlagen.cfg(defs, {"MaxDepth": depth}, invariants=inv, properties=props, view="view"), inv, props)


# ------------------------------------------------------------------------------------ code -> spec
def record_traces(n, length, seed, variant="base"):
    rnd = random.Random(seed)
    traces = []
    v = VARIANTS[variant]
    keys = keys_of(variant)
    qk = v["contracts"] + 2 * sorted(v["chains"])
    tmax = max(v["ltd"])
    for _ in range(n):
        ex, cs, chain, tmap, AC = _world(variant)
        saved = AC.now
        st = {"now": 0}
        AC.now = tmap[0]
        ops = []
        try:
            for _ in range(length):
                r = rnd.random()
                if r < 0.62:
                    b = rnd.choice([8, 9, 12, 20])
                    op = {"op": "quote", "k": rnd.choice(qk), "bid": b,
                          "ask": b + rnd.choice([0, 0, 1, 2]), "t": st["now"]}
                elif r < 0.8:
                    op = {"op": "disc", "k": rnd.choice(qk[:-len(v["chains"])]), "bid": 0, "ask": 0, "t": st["now"]}
                else:
                    if st["now"] >= tmax:
                        continue
                    op = {"op": "advance", "k": "-", "bid": 0, "ask": 0, "t": rnd.randint(st["now"] + 1, tmax)}
                op["out"] = apply(ex, cs, chain, tmap, AC, op, st)
                op["view"] = observe(ex, cs, chain, keys)
                ops.append(op)
        finally:
            AC.now = saved
        traces.append({"ops": ops})
    return traces


def validate_traces(rep, traces, name="trace", variant="base"):
    wd = tlc.new_workdir("C14-trace")
    path = os.path.join(wd, "traces.json")
    with open(path, "w") as f:
        json.dump(traces, f)
    expected = sum(len(t["ops"]) + 1 for t in traces)
    v = VARIANTS[variant]
    defs = {"Contracts": set(v["contracts"]), "ChainSeq": list(v["seq"]), "ChainLtd": list(v["ltd"]), "ChainOff": chain_off(variant)}
    module = tlagen.mc_module("MCT", "ExchangeTrace", defs)
    cfg = tlagen.cfg(defs, {"ExpectedStates": expected}, invariants=["Accepted"], postcondition="AllConsumed")
    try:
        res = tlc.run("MCT", module, cfg, workers=1, env={"TRACE_FILE": path}, tag="C14-tracev")
    finally:
        tlc.rm_workdir(wd)
    try:
        rep.add_model(name, res, ["Accepted"], [])
        if res.violated:
            tr = tlaval.parse_trace(res.trace or "")
            lastst = tr[-1][1] if tr else {}
            tid, l = lastst.get("tid"), lastst.get("l")
            verdict = lastst.get("verdict")
            ops = traces[tid - 1]["ops"][: (l or 1) - 1] if tid else []
            rep.violation("trace", "trace/%s" % (verdict,), "recorded execution rejected by ExchangeTrace: trace %s line %s "
                          "clause %s" % (tid, (l or 1) - 1, verdict), {"kind": "exchange-trace", "ops": ops})
        elif "AllConsumed" in res.stdout and "violated" in res.stdout:
            raise tlc.TLCFailure("trace batch not fully consumed")
        else:
            rep.traces += len(traces)
            rep.evaluations += expected - len(traces)
            rep.count("recorded_traces_accepted", len(traces))
    finally:
        tlc.rm_workdir(res.workdir)


def c14(tier, seed):
    rep = core.Report("C14", tier, seed)
    rep.assumptions = [
        "keys: two assets, two ES futures, the chain of the two, and the plain symbol strings; prices on an integer grid",
        "the simulation clock (AbstractContract.now) only moves forward and takes the values: start, one second before / at / "
        "one second after the first last-trading instant, one second before / at the second one",
        "EventNBBO cannot be built for a string key (the event verifies the contract), so string keys are queried, not quoted",
    ]
    depth = 4 if tier == "quick" else 5
    mod, cfg, inv, props = model(depth)
    explore.explore_and_replay(rep, "exchange", mod, cfg, ("harness.exchange_check", "replay_chunk"), {},
                               set(CLAUSE_PROPS), inv, props, chunk=500)
    # a chain of three contracts addressed by its lead and, through a second chain object built with month=1, one contract
    # down the curve; the clock crosses both rolls
    mod, cfg, inv, props = model(depth + 1, "offset")
    explore.explore_and_replay(rep, "exchange-chain-offset", mod, cfg, ("harness.exchange_check", "replay_chunk"),
                               {"variant": "offset"}, set(CLAUSE_PROPS), inv, props, chunk=500)
    # no depth bound: the abstraction `fview` (books as they show, last history entry, clock) has finitely many values, TLC
    # runs to the fixpoint and the state invariants hold after histories of any length over this data
    v = VARIANTS["base"]
    defs = {"Contracts": {"A", "F1", "F2"}, "ChainSeq": ["F1", "F2"], "ChainLtd": [3, 6], "ChainOff": chain_off("base"),
            "Bids": {8, 12}, "Spreads": {0, 2}, "Times": {2, 3, 6}, "QuoteKeys": {"A", "F1", "CH"}}
    res = tlc.run("MC", tlagen.mc_module("MC", "Exchange", defs),
                  tlagen.cfg(defs, {"MaxDepth": 1000000}, invariants=inv, view="fview"), workers=8, tag="C14-fixpoint", timeout=3000)
    try:
        rep.add_model("exchange-unbounded (fixpoint of the abstraction, no depth bound)", res, inv, [])
        if res.violated:
            rep.violation("model:" + res.violated, "model/fixpoint/%s" % res.violated,
                          "TLC: %s violated in the unbounded exploration" % res.violated, {"tlc": (res.trace or "")[:3000]})
    finally:
        tlc.rm_workdir(res.workdir)
    n, length = (400, 25) if tier == "quick" else (4000, 40)
    traces = record_traces(n, length, seed)
    rep.sample({"recorded_trace": [{k: v for k, v in o.items() if k != "view"} for o in traces[0]["ops"][:8]]})
    validate_traces(rep, traces)
    traces = record_traces(n // 2, length, seed + 1, "offset")
    validate_traces(rep, traces, "trace-chain-offset", "offset")
    return rep.finish()
