"""C06 on Interest.tla (symbolic exponents, arbitrary second-level cuts) and on Broker.tla (whole years,
with a margined position: posted margin earns nothing)."""
from datetime import datetime, timedelta
from decimal import Decimal, getcontext
from fractions import Fraction as F

from . import tlagen, tlaval, core, explore

getcontext().prec = 50
Y = Decimal(31536000)
REGIMES = {"r1": (F(1, 100), F(0)), "r3m1": (F(3, 100), F(1, 100)), "neg": (F(1, 100), F(3, 100)),
           "minus": (F(-5, 100), F(1, 200)), "zero": (F(0), F(0))}
B0 = 1000
BASE = datetime(1960, 1, 1)

CLAUSE_PROPS = {"amount": ["C06"], "balance": ["C06"], "reject": ["C06"], "outcome": ["C06"], "pure": ["C06"],
                "idle_profit": ["C06"]}


def base_of(regime, sign):
    r, m = REGIMES[regime]
    if sign > 0:
        b = 1 + r - m
        return Decimal(b.numerator) / Decimal(b.denominator) if b > 1 else Decimal(1)   # positive balances are never charged
    b = 1 + r + m
    return Decimal(b.numerator) / Decimal(b.denominator)


def closed(regime, sign, secs):
    """B0 x base^(secs / Y)"""
    return Decimal(sign) * (base_of(regime, sign) ** (Decimal(secs) / Y))


def rel_close(code, exact, tol=Decimal("1e-9")):
    try:
        c = Decimal(repr(float(code)))
    except (TypeError, ValueError):
        return False            # not a number at all (e.g. the amount was never computed)
    return abs(c - exact) <= tol * max(Decimal(1), abs(exact))


def replay_chunk(ctx, texts):
    from . import impl
    out = {"n": 0, "ops": 0, "fails": [], "classes": {}, "sample": None}
    for text in texts:
        s = tlaval.parse_state(text)
        if s["n"] != ctx["maxcalls"]:
            continue
        regime, sign = s["regime"], s["sign"]
        r, m = REGIMES[regime]
        ex = impl.Exchange()
        rate = impl.Rate("VERIF-RATE")
        cash = impl.Cash()
        ex.process_EventNBBO(impl.EventNBBO(BASE, cash, 1.0, 1.0))
        # every other behaviour the reference rate is published as a two-sided quote around it (Transmitter.add_prices with a
        # spread does that to every column): the reference rate is the mid, whatever the sign of the balance
        half = 0.0078125 if out["n"] % 2 == 1 else 0.0
        ex.process_EventNBBO(impl.EventNBBO(BASE, rate, float(r) - half, float(r) + half))
        br = impl.Broker(ex, cash, deposit=float(sign), fees=impl.BrokerFees(markup=float(m), interest_rate=rate))
        ops = list(s["hist"])
        bad = None
        # every third behaviour: the same instants as time-zone aware stamps whose UTC offset changes from call to call
        # (elapsed time is a difference of instants, not of wall-clock readings)
        aware = out["n"] % 3 == 2
        tick = Decimal(str(ctx.get("tick", 1)))            # seconds per model time unit (1/4 s in the sub-second model)
        for i, op in enumerate(ops):
            t = BASE + timedelta(seconds=float(op["t"] * tick))
            if aware:
                from datetime import timezone
                t = t.replace(tzinfo=timezone.utc).astimezone(timezone(timedelta(hours=(0, 1, -1, 2)[(i + op["t"]) % 4])))
            bal_before = br.holdings_quantity[cash]
            if op["op"] == "rebalance":
                reb = impl.Rebalancing(time=t)
                o, v = impl.classify(lambda: br.rebalance(reb))
                val = reb.profit_on_idle_cash if o in ("ok", "broke") and reb.profit_on_idle_cash is not ... else v
            else:
                o, val = impl.classify(lambda: br.accrued_interest(t, op["op"] == "accrue"))
            out["ops"] += 1
            bal = br.holdings_quantity[cash]
            if o != op["out"]:
                bad = (i, "reject" if op["out"] == "error" else "outcome",
                       "%s at t=%s: outcome %s (%r), spec %s" % (op["op"], op["t"], o, val, op["out"]))
                break
            if o == "error":
                if bal != bal_before:
                    bad = (i, "reject", "a rejected accrual changed the balance")
                    break
                continue
            before = closed(regime, sign, op["from"] * tick)
            amount = before * (base_of(regime, sign) ** (Decimal(op["span"]) * tick / Y) - 1)
            if not rel_close(val, amount, Decimal("1e-9")) and not rel_close(val, amount, Decimal("1e-9") * max(Decimal(1), abs(before))):
                bad = (i, "idle_profit" if op["op"] == "rebalance" else "amount",
                       "%s at t=%s returned %r, closed form %s (regime %s, sign %s, balance compounded over %s s, span %s s)" % (
                           op["op"], op["t"], val, amount, regime, sign, op["from"], op["span"]))
                break
            after = closed(regime, sign, (op["from"] + (op["span"] if op["op"] != "query" else 0)) * tick)
            if not rel_close(bal, after):
                bad = (i, "pure" if op["op"] == "query" else "balance",
                       "balance %r after %s at t=%s, closed form %s" % (bal, op["op"], op["t"], after))
                break
        out["n"] += 1
        k = "%s/%s" % (regime, "pos" if sign > 0 else "neg")
        out["classes"][k] = out["classes"].get(k, 0) + 1
        if out["sample"] is None:
            out["sample"] = {"regime": regime, "sign": sign, "calls": [(o["op"], o["t"], o["out"]) for o in ops]}
        if bad and len(out["fails"]) < 30:
            spans = sorted({o["span"] for o in ops[: bad[0] + 1]})
            out["fails"].append({"clause": bad[1], "key": "%s/%s/%s/%s" % (bad[1], ops[bad[0]]["op"], regime, "pos" if sign > 0 else "neg"),
                                 "detail": bad[2], "case": {"kind": "interest", "regime": regime, "sign": sign,
                                                            "ops": ops[: bad[0] + 1], "spans": spans}})
    return out


TRACE_REGIMES = [(F(1, 8), F(1, 16)), (F(1, 16), F(1, 8)), (F(0), F(0)), (F(3, 16), F(0)), (F(-1, 16), F(1, 16))]
YEAR_S = 31536000


def record_traces(n, length, seed):
    """random executions of a real cash-only Broker at whole-year instants under dyadic rates: the amounts are rationals"""
    import random
    from . import impl
    from .broker_trace import rat
    rnd = random.Random(seed)
    traces = []
    for k in range(n):
        r, m = TRACE_REGIMES[k % len(TRACE_REGIMES)]
        dep = rnd.choice([1000, -1000, 16, -16])
        pos = max(F(1), 1 + r - m)
        neg = 1 + r + m
        ex = impl.Exchange()
        rate = impl.Rate("VERIF-RATE")
        cash = impl.Cash()
        ex.process_EventNBBO(impl.EventNBBO(BASE, cash, 1.0, 1.0))
        half = 0.0078125 if k % 3 == 1 else 0.0              # a two-sided rate quote around the reference rate (dyadic: exact mid)
        ex.process_EventNBBO(impl.EventNBBO(BASE, rate, float(r) - half, float(r) + half))
        br = impl.Broker(ex, cash, deposit=float(dep), fees=impl.BrokerFees(markup=float(m), interest_rate=rate))
        y, acc, ops = rnd.choice([0, 1]), None, []
        for _ in range(length):
            kind = "accrue" if rnd.random() < 0.6 else "query"
            if acc is not None and acc >= 1 and rnd.random() < 0.15:
                t_y = acc - 1                                    # a time earlier than the last accrual
            else:
                y = min(4, y + rnd.choice([0, 0, 1, 1, 2]))
                t_y = y
            t = BASE + timedelta(seconds=YEAR_S * t_y)
            o, val = impl.classify(lambda: br.accrued_interest(t, kind == "accrue"))
            ops.append({"op": kind, "y": t_y, "out": "ok" if o == "ok" else "error",
                        "amt": rat(val) if o == "ok" else [0, 0], "cash": rat(br.holdings_quantity[cash])})
            if o == "ok":
                acc = t_y if (kind == "accrue" or acc is None) else acc
        traces.append({"pos": [pos.numerator, pos.denominator], "neg": [neg.numerator, neg.denominator], "dep": [dep, 1], "ops": ops})
    return traces


def validate_traces(rep, tier, seed):
    """code -> spec: TLC validates the recorded executions against InterestTrace.tla (exact rationals)"""
    import json
    import os
    from . import tlc
    n, length = (300, 7) if tier == "quick" else (3000, 9)
    traces = record_traces(n, length, seed)
    wd = tlc.new_workdir(rep.prop + "-itrace")
    path = os.path.join(wd, "traces.json")
    with open(path, "w") as f:
        json.dump(traces, f)
    expected = sum(len(t["ops"]) + 1 for t in traces)
    inv = ["Accepted", "NeverCharged", "SignKept"]
    module = tlagen.mc_module("MCT", "InterestTrace", {})
    cfg = tlagen.cfg({}, {"ExpectedStates": expected}, invariants=inv, postcondition="AllConsumed")
    try:
        res = tlc.run("MCT", module, cfg, workers=1, env={"TRACE_FILE": path}, tag=rep.prop + "-itracev", timeout=1800)
    finally:
        tlc.rm_workdir(wd)
    try:
        rep.add_model("interest (recorded traces)", res, inv, [])
        if res.violated:
            tr = tlaval.parse_trace(res.trace or "")
            lastst = tr[-1][1] if tr else {}
            tid, l = lastst.get("tid"), lastst.get("l")
            verdict = list(lastst.get("verdict") or [])
            t = traces[tid - 1] if tid else {"ops": []}
            ops = t["ops"][: (l or 1) - 1]
            clause = {"out": "outcome", "amt": "amount", "cash": "balance", "reject": "reject"}.get(verdict[0] if verdict else "", "amount")
            rep.violation(clause, "trace/%s/%s" % ("/".join(verdict) or res.violated, ops[-1]["op"] if ops else "?"),
                          "recorded execution of the real Broker rejected by InterestTrace.tla: trace %s line %s, clause(s) %s (growth "
                          "factors %s / %s, deposit %s); logged calls %s" % (tid, (l or 1) - 1, verdict or res.violated, t.get("pos"), t.get("neg"),
                                                                            t.get("dep"), ops), {"kind": "interest-trace", "trace": {**t, "ops": ops}})
        else:
            rep.traces += len(traces)
            rep.evaluations += expected - len(traces)
            rep.count("recorded_interest_traces_accepted", len(traces))
            rep.sample({"recorded_interest_trace": traces[0]})
    finally:
        tlc.rm_workdir(res.workdir)


def c06(tier, seed):
    from .props_broker import model as _unused  # noqa: F401
    from . import props_broker, broker_check
    rep = core.Report("C06", tier, seed)
    rep.assumptions = [
        "constant reference rate per behaviour; regimes (rate, markup): (1%,0), (3%,1%), (1%,3%: net negative on deposits), "
        "(-5%,0.5%), (0,0); balances +1000, -1000, +10 and -10 (the model variable `sign` holds the signed opening balance); increments 1 s, 1 h, 1 d, 365 d, 10 y (and 30 y thorough)",
        "the compounding factor is evaluated by the harness with 50-digit decimals from the exponent the model keeps; "
        "comparison at 1e-9 relative",
        "the first call of either kind starts the accrual clock (pinned by the repository's own test)",
    ]
    incs = {1, 3600, 86400, 31536000, 315360000} if tier == "quick" else {1, 60, 3600, 86400, 31536000, 315360000, 946080000}
    maxcalls = 3 if tier == "quick" else 4
    defs = {"Regimes": set(REGIMES), "Signs": {1000, -1000, 10, -10}, "Incs": incs}
    inv = ["ClockStartsAtFirstCall", "SplitInvariant", "AmountBase"]
    props = ["QueryPure", "NoDoubleAccrual", "RejectEarlier"]
    module = tlagen.mc_module("MC", "Interest", defs)
    cfg = tlagen.cfg(defs, {"MaxCalls": maxcalls, "MaxT": 2000000000}, invariants=inv, properties=props)
    explore.explore_and_replay(rep, "interest", module, cfg, ("harness.interest_check", "replay_chunk"),
                               {"maxcalls": maxcalls}, set(CLAUSE_PROPS), inv, props, chunk=400)
    # sub-second stamps: the same specification with a time unit of 1/4 s (increments of 1, 3 and 5 units, and an hour): elapsed
    # time is not rounded to whole seconds, and a time 1/4 s earlier than the last accrual is an earlier time
    defs2 = {"Regimes": {"r3m1", "minus"}, "Signs": {1000, -1000}, "Incs": {1, 3, 5, 14400}}
    cfg2 = tlagen.cfg(defs2, {"MaxCalls": maxcalls, "MaxT": 2000000000}, invariants=inv, properties=props)
    explore.explore_and_replay(rep, "interest-subsecond", tlagen.mc_module("MC", "Interest", defs2), cfg2,
                               ("harness.interest_check", "replay_chunk"), {"maxcalls": maxcalls, "tick": "0.25"},
                               set(CLAUSE_PROPS), inv, props, chunk=400)
    # whole-year accruals inside the full account (a margined position is open: margin earns nothing)
    m = broker_check.model("years-margined", ["S5", "F5"], ["quote", "trade", "accrue", "query", "value", "lots"],
                           4 if tier == "quick" else 5, fees="free", rate=F(1, 8), markup=F(1, 16), steps=(1, 2), maxclk=3,
                           bids=(8,), spreads=(0, 2), dqs=(-1, 2), lots=[{"F5": 1}, {}],
                           invariants=["SelfFinancing"], properties=[])
    broker_check.explore_and_replay(rep, m, props_broker.clauses_of("C06") | {"nlv"})
    # the whole deposit is spent, so accruals happen on a cash balance of exactly zero before cash comes back
    m = broker_check.model("years-zero-cash", ["S5"], ["quote", "trade", "accrue"], 6, fees="free", rate=F(1, 8),
                           markup=F(1, 16), steps=(1, 2), maxclk=4, bids=(8,), spreads=(0,), dqs=(-1, 1), deposit=F(40),
                           invariants=["SelfFinancing"], properties=[])
    broker_check.explore_and_replay(rep, m, props_broker.clauses_of("C06") | {"nlv"})
    # code -> spec on the year lattice with dyadic rates (InterestTrace.tla): amounts and balances decided by TLC itself
    validate_traces(rep, tier, seed)
    # the environment: the reference rate is published once, at the first timestep (reset seeds the rate book with 0 first)
    from . import envfull_check
    ms = [x for x in envfull_check.c07_models(tier) if x["name"] in ("yearly-interest", "yearly-rate-path")]
    envfull_check.run_models(rep, ms, {"env_interest"})
    return rep.finish()
