"""C02 on NoLookahead.tla (self-composition of Env.tla): TLC enumerates pairs of streams that agree up to a
cut and checks PrefixEqual / NextExecCut on the specification; every pair is then run through two real
TradingEnv instances with the same actions and everything they return or record up to the cut is compared
bit for bit."""
import copy
import struct

import numpy as np

from . import tlagen, tlaval, core, explore
from .env_check import cand, G, L, DAY

CLAUSE_PROPS = {"obs": ["C02"], "reward": ["C02"], "done": ["C02"], "trades": ["C02"], "holdings": ["C02"], "nlv": ["C02"],
                "track": ["C02"], "history": ["C02"], "state_history": ["C02"], "delivered": ["C02"], "next_exec": ["C02"], "outcome": ["C02"], "tabular": ["C02"]}


def hx(x):
    return struct.pack("<d", float(x)).hex()


def candidates(n):
    cs = [cand(G[k], "q", "A", 100 + 4 * k, 102 + 4 * k) for k in range(n)]          # the bar-shaped stream (mandatory)
    for k in range(1, n):
        cs.append(cand(G[k], "q", "A", 90 + k, 95 + k))          # same stamp as the bar, inserted later: overrides its value
    for k in range(n - 1):
        cs.append(cand(G[k] + 1, "q", "B", 50 + k, 52 + k))
        cs.append(cand(G[k] + L, "q", "A", 110 + k, 110 + k))    # exactly at the latency bound
        cs.append(cand(G[k] + L + 1, "x"))
    cs.append(cand(G[n - 1] + 5, "x"))
    return cs


def model(tier):
    n = 4
    cs = candidates(n)
    defs = {
        "Grid": list(G[:n]), "Cand": cs, "Mandatory": set(range(1, n + 1)), "Lats": {0, L},
        "Folds": tlagen.Raw("{<<0, 2000000000>>}"), "Modes": tlagen.Raw("{[markov |-> FALSE, warmup |-> -1]}"),
        "Delays": {0, 1}, "EpLens": {0}, "ResetLens": {0}, "Spaces": {"box"}, "Bads": tlagen.Raw('{[at |-> 0, cls |-> "ok"]}'),
        "Cuts": set(G[: n - 1]),
    }
    plain = {"DayLen": DAY, "MaxOpt": 1 if tier == "quick" else 2, "MaxCalls": n, "ResetAnywhere": False, "ClockRule": "after_newdate",
             "HistoryOrder": "by_time", "NullRule": "in_space", "StartStride": 1}
    inv = ["PrefixEqual", "NextExecCut"]
    return tlagen.mc_module("MC", "NoLookahead", defs), tlagen.cfg(defs, plain, invariants=inv), inv, n


def model_markov(tier, markov=True):
    """repeated and abandoned episodes on one environment with a Markovian transmitter: episodes of a requested length
    starting at a drawn position, followed by further episodes that step through the earlier starting point"""
    n = 4
    cs = [cand(G[k], "q", "A", 100 + 4 * k, 102 + 4 * k) for k in range(n)]
    cs += [cand(G[2], "q", "A", 92, 97), cand(G[1] + L, "q", "A", 111, 111), cand(G[2] + L + 1, "x")]
    if tier != "quick":
        cs = candidates(n)
    defs = {
        "Grid": list(G[:n]), "Cand": cs, "Mandatory": set(range(1, n + 1)), "Lats": {0, L},
        "Folds": tlagen.Raw("{<<0, 2000000000>>}"), "Modes": tlagen.Raw("{[markov |-> %s, warmup |-> -1]}" % ("TRUE" if markov else "FALSE")),
        "Delays": {0}, "EpLens": {0}, "ResetLens": {0, 2}, "Spaces": {"box"}, "Bads": tlagen.Raw('{[at |-> 0, cls |-> "ok"]}'),
        "Cuts": set(G[1: n - 1]),
    }
    plain = {"DayLen": DAY, "MaxOpt": 1, "MaxCalls": 4 if tier == "quick" else 5, "ResetAnywhere": True, "ClockRule": "after_newdate",
             "HistoryOrder": "by_time", "NullRule": "in_space", "StartStride": 1}
    inv = ["PrefixEqual", "NextExecCut"]
    return tlagen.mc_module("MC", "NoLookahead", defs), tlagen.cfg(defs, plain, invariants=inv), inv, plain["MaxCalls"]


def model_subsecond(tier):
    """units of 0.1 ms: extra quotes one tick beyond the latency bound"""
    u = 10000
    dl = 86400 * u
    g = [22 * 3600 * u, 23 * 3600 * u, dl + 1800 * u]
    Lt = 30 * u
    cs = [cand(g[k], "q", "A", 100 + 4 * k, 102 + 4 * k) for k in range(3)]
    for k in range(2):
        cs.append(cand(g[k] + Lt, "q", "A", 110 + k, 110 + k))         # exactly at the bound
        cs.append(cand(g[k] + Lt + 1, "q", "A", 120 + k, 121 + k))     # 0.0001 s beyond it
        cs.append(cand(g[k] + Lt + 3, "q", "A", 130 + k, 131 + k))     # 0.0003 s beyond it
        cs.append(cand(g[k] + 1, "q", "B", 50 + k, 52 + k))
    defs = {
        "Grid": list(g), "Cand": cs, "Mandatory": {1, 2, 3}, "Lats": {Lt},
        "Folds": tlagen.Raw("{<<0, 2000000000>>}"), "Modes": tlagen.Raw("{[markov |-> FALSE, warmup |-> -1]}"),
        "Delays": {0, 1}, "EpLens": {0}, "ResetLens": {0}, "Spaces": {"box"}, "Bads": tlagen.Raw('{[at |-> 0, cls |-> "ok"]}'),
        "Cuts": set(g[:2]),
    }
    plain = {"DayLen": dl, "MaxOpt": 1 if tier == "quick" else 2, "MaxCalls": 3, "ResetAnywhere": False,
             "ClockRule": "after_newdate", "HistoryOrder": "by_time", "NullRule": "in_space", "StartStride": 1}
    inv = ["PrefixEqual", "NextExecCut"]
    from fractions import Fraction
    return tlagen.mc_module("MC", "NoLookahead", defs), tlagen.cfg(defs, plain, invariants=inv), inv, 3, Fraction(1, u)


def _outputs(w, call, out, val):
    """everything the call returned or recorded, as exact bit patterns"""
    from . import impl
    env = w.env
    o = {"outcome": out}
    if out != "ok":
        return o
    if call == "reset":
        obs = val
        o["reward"] = None
        o["done"] = None
    else:
        obs, reward, done, info = val
        o["reward"] = hx(reward)
        o["done"] = bool(done)
        r = info.get("_rebalancing") if isinstance(info, dict) else None
        o["trades"] = [] if r is None else [(t.contract.symbol, hx(t.quantity), hx(t.bid_price), hx(t.ask_price), str(t.time))
                                            for t in r.trades]
    o["obs"] = {k: (np.asarray(v, dtype=float).tobytes().hex() if not hasattr(v, "sink") else "-") for k, v in dict(obs).items()} \
        if isinstance(obs, dict) else repr(obs)
    o["holdings"] = sorted((c.symbol, hx(q)) for c, q in env.broker.holdings_quantity.items())
    b = copy.deepcopy(env.broker)
    o1, v1 = impl.classify(lambda: b.net_liquidation_value(False))
    o["nlv"] = hx(v1) if o1 == "ok" else o1
    tr = env.broker.track_record
    o["track"] = [(str(tr[i].time), hx(tr[i].context_pre.nlv), hx(tr[i].context_post.nlv), len(tr[i].trades)) for i in range(len(tr))]
    o["delivered"] = [(e["kind"], e["id"], str(e["t"]), str(e["clk"])) for e in w.sink.entries]
    # what the observation features and the state have recorded so far (Feature.history / IState.history): stamps and values
    st = getattr(env, "state", None)
    hist = []
    for f in (getattr(st, "features", None) or []):
        if getattr(f, "name", "") == "verif-obs":
            hist.append([(str(k), np.asarray(v, dtype=float).tobytes().hex()) for k, v in (f.history or {}).items()])
    o["history"] = hist
    o["state_history"] = [str(k) for k in (getattr(st, "history", None) or {})]
    return o


def _obs_feature():
    from . import impl  # noqa: F401
    import gymnasium
    from tradingenv.features import Feature

    class ObsPrices(Feature):
        """an observation feature with real values: the four quotes of the two contracts"""

        def __init__(self, a, b):
            Feature.__init__(self, space=gymnasium.spaces.Box(-1e9, 1e9, (4,), np.float64), name="verif-obs", save=True)
            self.a, self.b = a, b

        def parse(self):
            x = [self.exchange[self.a].bid_price, self.exchange[self.a].ask_price,
                 self.exchange[self.b].bid_price, self.exchange[self.b].ask_price]
            return np.nan_to_num(np.array(x, dtype=np.float64), nan=0.0)
    return ObsPrices


def replay_chunk(ctx, texts):
    from . import replay_env, impl
    out = {"n": 0, "ops": 0, "fails": [], "classes": {}, "sample": None}
    Obs = _obs_feature()
    for text in texts:
        s = tlaval.parse_state(text)
        if s["ncallsA"] != ctx["maxcalls"]:
            continue
        if ctx.get("min_resets") and sum(1 for r in s["histA"] if r["call"] == "reset" and r["out"] == "ok") < ctx["min_resets"]:
            continue                       # single-episode histories are those of the base model
        cfgA, cfgB, cut = dict(s["cfgA"]), dict(s["cfgB"]), s["cut"]
        cfgA["tick"] = cfgB["tick"] = ctx.get("tick", 1)
        # every other pair: the Transmitter first served another environment configured with a different latency
        cfgA["reuse_transmitter"] = cfgB["reuse_transmitter"] = (len(cfgA["events"]) + len(cfgB["events"])) % 2 == 0
        replay_env._TICK[0] = ctx.get("tick", 1)
        histA, histB = list(s["histA"]), list(s["histB"])
        wa = replay_env.World(cfgA, True, seed=1, extra_features=lambda w: [Obs(w.A, w.B)])
        wb = replay_env.World(cfgB, True, seed=2, extra_features=lambda w: [Obs(w.A, w.B)])
        grid = list(cfgA["grid"])
        fsteps = list(cfgA["fsteps"])
        same_lat = [e for e in cfgA["events"] if e["t"] <= cut + cfgA["lat"]] == [e for e in cfgB["events"] if e["t"] <= cut + cfgB["lat"]]
        bad = None
        j = 0
        for i, rec in enumerate(histA):
            if rec["call"] == "reset":
                j = 0
                st, rl = rec["start"] or 1, rec["act"]["id"]
                stepsA = fsteps[st - 1: st - 1 + rl] if rl else fsteps[st - 1:]       # timesteps of this episode
                ra, rb = wa.reset(st, rl), wb.reset(st, rl)
            else:
                j += 1
                ra, rb = wa.step(rec["act"]), wb.step(histB[i]["act"])
            out["ops"] += 2
            oa, ob = _outputs(wa, rec["call"], *ra), _outputs(wb, rec["call"], *rb)
            landing = grid[stepsA[j] - 1] if j < len(stepsA) else None
            if landing is not None and landing <= cut:
                for k in oa:
                    if oa[k] != ob.get(k):
                        bad = (i, k, "streams agree on every event stamped <= %s, yet the %s %s by the call landing on %s differ: %r vs %r" % (
                            cut, k, "returned" if k in ("obs", "reward", "done", "outcome") else "recorded", landing, oa[k], ob.get(k)))
                        break
            elif rec["call"] == "step" and j >= 1 and grid[stepsA[j - 1] - 1] <= cut and same_lat:
                xa, xb = wa.sink.exec, wb.sink.exec
                ka = None if xa is None else (sorted(xa["alloc"].items()), sorted(xa["books"].items()), str(xa["stamp"]), oa.get("trades"))
                kb = None if xb is None else (sorted(xb["alloc"].items()), sorted(xb["books"].items()), str(xb["stamp"]), ob.get("trades"))
                if repr(ka) != repr(kb):
                    bad = (i, "next_exec", "streams agree up to cut + latency = %s, yet the execution of the step after %s differs: %r vs %r" % (
                        cut + cfgA["lat"], cut, ka, kb))
            if bad or ra[0] != "ok" or rb[0] != "ok":
                break
        out["n"] += 1
        k = "lat%s/d%s" % (cfgA["lat"], cfgA["delay"])
        out["classes"][k] = out["classes"].get(k, 0) + 1
        if out["sample"] is None:
            out["sample"] = {"cut": cut, "lat": cfgA["lat"], "delay": cfgA["delay"],
                             "stream_A": [(e["id"], e["t"], e["kind"]) for e in cfgA["events"]],
                             "stream_B": [(e["id"], e["t"], e["kind"]) for e in cfgB["events"]]}
        if bad and len(out["fails"]) < 30:
            out["fails"].append({"clause": bad[1], "key": "%s/lat%s/d%s" % (bad[1], "0" if cfgA["lat"] == 0 else "N", cfgA["delay"]),
                                 "detail": bad[2], "case": {"kind": "nolook", "cut": cut,
                                                            "cfgA": {k2: v for k2, v in cfgA.items() if k2 != "part"},
                                                            "cfgB": {k2: v for k2, v in cfgB.items() if k2 != "part"},
                                                            "calls": [(r["call"], r["act"]) for r in histA[: bad[0] + 1]]}})
    return out


def c02(tier, seed):
    rep = core.Report("C02", tier, seed)
    rep.assumptions = [
        "bar-shaped streams (a quote of the traded contract at every timestep) plus extra events: quotes overriding a bar at the "
        "same stamp, quotes at and 1 s beyond the latency bound, custom events; perturbations = any other choice of the extras "
        "stamped after the cut",
        "observations come from a feature reading the exchange (the four quotes of two contracts); user features with hidden "
        "state are not exercised",
        "bit-for-bit comparison (IEEE-754 bit patterns) of observations, rewards, trades, holdings, NLV, track-record entries "
        "and delivered notifications of the two real runs",
    ]
    module, cfg, inv, n = model(tier)
    explore.explore_and_replay(rep, "pairs", module, cfg, ("harness.nolook_check", "replay_chunk"), {"maxcalls": n},
                               set(CLAUSE_PROPS), inv, [], chunk=100)
    module, cfg, inv, n = model_markov(tier)
    explore.explore_and_replay(rep, "pairs-markov-episodes", module, cfg, ("harness.nolook_check", "replay_chunk"), {"maxcalls": n, "min_resets": 2},
                               set(CLAUSE_PROPS), inv, [], chunk=100)
    # the same with the default (non-Markovian) transmitter: a later episode starting further down the data replays the history
    # up to its first timestep - and nothing stamped after it - whatever the environment iterated through before
    module, cfg, inv, n = model_markov(tier, markov=False)
    explore.explore_and_replay(rep, "pairs-episodes", module, cfg, ("harness.nolook_check", "replay_chunk"), {"maxcalls": n, "min_resets": 2},
                               set(CLAUSE_PROPS), inv, [], chunk=100)
    module, cfg, inv, n, tick = model_subsecond(tier)
    explore.explore_and_replay(rep, "pairs-subsecond", module, cfg, ("harness.nolook_check", "replay_chunk"),
                               {"maxcalls": n, "tick": tick}, set(CLAUSE_PROPS), inv, [], chunk=100)
    # episodes that end mid-data (the account is wiped out inside a latency window, EnvFull.tla): when the call that ends the
    # episode returns, nothing stamped after the timestep it lands on has been processed
    from . import envfull_check
    ms = [m for m in envfull_check.c09_models(tier) if m["name"] in ("crash-latent", "crash-latent-stay", "crash-latent-lots")]
    envfull_check.run_models(rep, ms, {"clock_full"})
    from . import tabular_check
    tabular_check.lookahead(rep, tier, seed)
    return rep.finish()
