"""Per-property model families on Broker.tla."""
from fractions import Fraction as F

from . import core
from .broker_check import model, req, explore_and_replay, simulate
from .replay_broker import CLAUSE_PROPS

BASE_OPS = ["quote", "trade", "value", "markall", "mark"]

ASSUME = [
    "grid domain: integer prices with even spreads, integer lots, multipliers {1,2,5}, margin requirements {1/4,1/2,1}, "
    "fees {(0,0),(1,1%)}, deposit 1000; comparisons at 1e-9 relative tolerance against exact rationals",
    "sequential single-threaded use of one Broker over one Exchange",
    "TLC explores the specification exhaustively to the stated depth; every distinct (state, last operation) is replayed "
    "into the real Broker with one history reaching it",
]


def clauses_of(prop):
    return {c for c, ps in CLAUSE_PROPS.items() if prop in ps}


def _ledger_models(tier, invariants, properties, epsilon_model=False):
    """the C01 / C05 family"""
    ms = []
    if epsilon_model:
        # residual positions below the broker's epsilon are dropped: trades that close all but 2^-11 of a position, with
        # the broker's epsilon set to 1/1000 (the default 1e-7 would need denominators beyond 32 bits).  Not part of the
        # C01 family: dropping a residual future leaves its quantity x price in the "paid" sum of the identity.
        e = F(1, 2048)
        ms.append(model("epsilon", ["S5", "F5"], ["quote", "trade", "value", "markall"], 4 if tier == "quick" else 5,
                        fees="free", bids=(8,), spreads=(0, 2), dqs=(F(1), F(-1), -(1 - e), 1 - e), epsilon=F(1, 1000),
                        invariants=invariants, properties=properties))
    if epsilon_model:
        # (C05 family) weights queried as the first valuation after a quote move; quotes that keep only the side needed to
        # liquidate the position
        ms.append(model("sf-weights", ["S5", "F5"], ["quote", "half", "trade", "weights", "context", "value"], 4 if tier == "quick" else 5,
                        fees="paid", bids=(8, 12), spreads=(2,), dqs=(-1, 2), invariants=invariants, properties=properties))
    # every PATH of three (thorough: four) operations - no VIEW, the history is part of the state - including discontinuations
    # and one-sided quotes: histories that the specification identifies are all replayed
    # a bid that falls to exactly zero (legal: only a negative mid is refused) and recovers: a liquidation price of 0 is a
    # price, not a missing one
    ms.append(model("sf-zero-bid", ["F5"], ["quote", "trade", "value", "markall"], 6, fees="free", bids=(0, 8), spreads=(2,),
                    dqs=(-1, 1), invariants=invariants, properties=properties))
    # large orders next to a small residual: buy 16384 + 2^-10, sell 16384 - what is left (2^-10, far above the broker's
    # dust threshold of 1e-7) is a position like any other, whatever the size of the trade that left it
    big = F(16384)
    ms.append(model("sf-large", ["S1", "G1"], ["quote", "trade", "value"], 4, fees="free", bids=(8,), spreads=(0, 2),
                    dqs=(big + F(1, 1024), -big), invariants=invariants, properties=properties))
    # orders priced on an earlier book and executed through Broker.transact after the book has moved
    ms.append(model("sf-offbook", ["S5", "F5"], ["quote", "trade", "tradeat", "value"], 4 if tier == "quick" else 5, fees="paid",
                    bids=(8, 12), spreads=(0, 2), dqs=(-1, 2), invariants=invariants, properties=properties))
    ms.append(model("sf-paths", ["S5", "F5"], BASE_OPS + ["lots", "disc", "half"], 3 if tier == "quick" else 4, fees="paid",
                    bids=(8,), spreads=(0, 2), dqs=(-1, 2), lots=[{"S5": 1, "F5": -1}, {}],
                    invariants=invariants, properties=properties, all_paths=True))
    if tier == "quick":
        ms.append(model("sf-paid", ["S5", "F5"], BASE_OPS + ["lots"], 5, fees="paid", dqs=(-1, 2),
                        lots=[{"S5": 1, "F5": -1}], invariants=invariants, properties=properties))
        ms.append(model("sf-free", ["S5", "F5"], BASE_OPS + ["lots"], 4, fees="free",
                        lots=[{"S5": 1, "F5": -1}, {"F5": 2}], invariants=invariants, properties=properties))
        ms.append(model("sf-etf-g1", ["S1", "G1"], BASE_OPS, 4, fees="paid", bids=(8, 10), dqs=(-3, -1, 1, 2),
                        invariants=invariants, properties=properties))
        # the top of the legal margin range: a contract margined at 100 %
        ms.append(model("sf-h2", ["H2"], BASE_OPS + ["lots"], 5, fees="paid", dqs=(-1, 2), lots=[{"H2": -1}],
                        invariants=invariants, properties=properties))
    else:
        for fees in ("paid", "free"):
            ms.append(model("sf-%s" % fees, ["S5", "F5"], BASE_OPS + ["lots"], 6, fees=fees, dqs=(-1, 2),
                            lots=[{"S5": 1, "F5": -1}, {"F5": 2}, {"S5": -2}],
                            invariants=invariants, properties=properties))
            ms.append(model("sf3-%s" % fees, ["S1", "G1", "H2"], BASE_OPS, 5, fees=fees, bids=(8, 10, 12),
                            dqs=(-3, -1, 1, 2), invariants=invariants, properties=properties))
        ms.append(model("sf-wide", ["S5", "F5"], BASE_OPS + ["lots"], 5, fees="paid",
                        lots=[{"S5": 1, "F5": -1}, {"F5": 2}], invariants=invariants, properties=properties))
        ms.append(model("sf-interest", ["S5", "F5"], ["quote", "trade", "value", "accrue", "query", "lots"], 5,
                        fees="free", rate=F(1, 8), markup=F(1, 16), steps=(1, 2), maxclk=3, dqs=(-1, 2),
                        lots=[{"F5": 1}], invariants=invariants, properties=properties))
    return ms


def c01(tier, seed):
    rep = core.Report("C01", tier, seed)
    rep.assumptions = list(ASSUME)
    inv = ["SelfFinancing"]
    props = ["TradeDelta", "QuoteDelta", "Neutral"]
    ms = _ledger_models(tier, inv, props)
    for m in ms:
        explore_and_replay(rep, m, clauses_of("C01"))
    # longer random behaviours of the same models (every state reached by the exhaustive search is replayed through ONE
    # history only; implementation state the specification does not have shows on other paths)
    for m in ms[:2]:
        simulate(rep, m, clauses_of("C01"), 1500 if tier == "quick" else 20000, 9 if tier == "quick" else 14, seed)
    # code -> spec: random executions recorded from the real Broker, validated by TLC against BrokerTrace.tla
    from . import broker_trace
    broker_trace.validate(rep, "trace-s5f5g1", ["S5", "F5", "G1"], "paid", {"nlv", "pos"},
                          400 if tier == "quick" else 5000, 25 if tier == "quick" else 40, seed)
    # code -> spec at the level of the whole environment: long random episodes of a real TradingEnv on a dyadic grid,
    # validated line by line by TLC (EnvLedgerTrace.tla)
    from . import envledger_check
    envledger_check.validate(rep, "C01", 8 if tier == "quick" else 120, seed, tier)
    return rep.finish()


def c05(tier, seed):
    rep = core.Report("C05", tier, seed)
    rep.assumptions = list(ASSUME)
    inv = ["MarginInv", "NlvDecomposition"]
    ms = _ledger_models(tier, inv, [], epsilon_model=True)
    for m in ms:
        explore_and_replay(rep, m, clauses_of("C05"))
    for m in ms[:3]:
        simulate(rep, m, clauses_of("C05"), 1500 if tier == "quick" else 20000, 9 if tier == "quick" else 14, seed)
    from . import broker_trace
    broker_trace.validate(rep, "trace-s5f5g1", ["S5", "F5", "G1"], "paid", {"mrg"},
                          400 if tier == "quick" else 5000, 25 if tier == "quick" else 40, seed)
    # code -> spec at the level of the whole environment: long random episodes of a real TradingEnv on a dyadic grid,
    # validated line by line by TLC (EnvLedgerTrace.tla)
    from . import envledger_check
    envledger_check.validate(rep, "C05", 8 if tier == "quick" else 120, seed, tier)
    return rep.finish()


def c13(tier, seed):
    rep = core.Report("C13", tier, seed)
    rep.assumptions = list(ASSUME) + [
        "a Trade needs both sides of the quote in the library; the property only requires the side needed - a "
        "rejection for the other side is accepted as modelled",
    ]
    inv = ["ValueFailsLoudly", "RebalanceNeedsQuotes"]
    props = ["RebalanceAtomic"]
    depth = 5 if tier == "quick" else 6
    ms = [
        model("faults", ["S5", "F5"], ["quote", "half", "disc", "trade", "value", "lots"], depth, fees="paid",
              bids=(8,), spreads=(2,), dqs=(-1, 1), lots=[{"S5": 1, "F5": -1}, {"F5": 1}, {}],
              invariants=inv, properties=props),
    ]
    # every *path* of three operations (no VIEW: the history is part of the state).  The models above replay one history per
    # (account state, last operation); an implementation may tell apart two histories that the specification identifies
    # (e.g. a discontinuation that precedes the first quote and one that follows it)
    ms.append(model("faults-paths", ["S5", "F5"], ["quote", "half", "disc", "trade", "value", "lots"], 3, fees="paid",
                    bids=(8,), spreads=(2,), dqs=(-1, 1), lots=[{"S5": 1, "F5": -1}, {"F5": 1}, {}],
                    invariants=inv, properties=props, all_paths=True))
    # a request previewed while quotes were there and executed after one of them was lost
    ms.append(model("faults-preview", ["S1", "F4"], ["quote", "half", "disc", "prepare"], 5, fees="free", bids=(8,), spreads=(0,),
                    reqs=[req({"S1": F(1, 2), "F4": F(1, 2)}), req({"S1": F(1), "F4": F(-2)}, measure="lots")], maxrebal=1,
                    invariants=inv, properties=props))
    if tier != "quick":
        ms.append(model("faults-w", ["S1", "G1"], ["quote", "half", "disc", "trade", "value", "rebal"], 5, fees="free",
                        bids=(8,), spreads=(0, 2), dqs=(-1, 1),
                        reqs=[req({"S1": F(1, 2), "G1": F(-1, 2)}), req({"G1": F(1)}), req({})],
                        invariants=inv, properties=props))
    for m in ms:
        explore_and_replay(rep, m, clauses_of("C13"))
    # longer random behaviours of the fault model (path diversity beyond the depth bound)
    simulate(rep, ms[0], clauses_of("C13"), 1500 if tier == "quick" else 20000, 9 if tier == "quick" else 14, seed)
    # code -> spec at the level of the whole environment: recorded TradingEnv episodes in which quotes lose a side and contracts
    # are discontinued; step() must fail exactly where the specification's valuation / rebalance fails, atomically
    from . import envledger_check
    envledger_check.validate(rep, "C13", 12 if tier == "quick" else 150, seed, tier)
    return rep.finish()


def c03(tier, seed):
    rep = core.Report("C03", tier, seed)
    rep.assumptions = list(ASSUME) + [
        "exact-rational rebalancing domain: prices {8,12,16}, multipliers {1,2,4}, fees (0,0) and (1, 1/16), targets in "
        "{-1,-1/2,1/2,1,3/2} x NLV on two contracts and small lot vectors; prior holdings from every history of the model "
        "up to the depth bound; trades below 1e-9 of NLV are 'nothing of economic size'",
    ]
    inv = ["TargetReached", "FrictionlessNlv", "FrictionlessWeights", "NoSpuriousFailure"]
    props = ["SecondRebalanceIdle"]
    h = F(1, 2)
    reqs_a = [req({"S1": h, "F4": h}), req({"S1": -h, "F4": F(3, 2)}), req({"F4": F(-1)}), req({"S1": F(3, 2)}),
              req({}), req({"S1": F(3), "F4": F(-2)}, measure="lots")]
    kw = dict(bids=(8, 12), spreads=(0, 4), invariants=inv, properties=props)
    ms = []
    # requests previewed first (Rebalancing.make_trades) and executed later, after quotes may have moved
    ms.append(model("reb-preview", ["S1", "F4"], ["quote", "prepare", "trade"], 5, fees="dy", dqs=(1,),
                    reqs=[reqs_a[0], reqs_a[1], reqs_a[5]], maxrebal=1, **kw))
    # interest accrues between rebalances (whole years, rational factor): targets are sized on the NLV after accrual
    kwi = dict(kw)
    kwi.update(bids=(8,), spreads=(0, 8))
    ms.append(model("reb-interest", ["S1", "F4"], ["quote", "rebal", "accrue"], 4, fees="free", rate=F(1, 8), markup=F(1, 16),
                    steps=(1,), maxclk=2, reqs=[reqs_a[0], reqs_a[2], req({"S1": F(3, 2)}), req({})], maxrebal=2, **kwi))
    if tier == "quick":
        ms.append(model("reb-dy", ["S1", "F4"], ["quote", "trade", "rebal"], 4, fees="dy", dqs=(-2, 1), reqs=reqs_a, **kw))
        ms.append(model("reb-free", ["S1", "F4"], ["quote", "rebal"], 4, fees="free", reqs=reqs_a[:5], **kw))
        # a fully-paid contract with a multiplier other than 1 next to a margined one
        ms.append(model("reb-s2", ["S2", "F4"], ["quote", "rebal"], 4, fees="free", bids=(8,), spreads=(0, 4),
                        reqs=[req({"S2": h, "F4": h}), req({"S2": F(-1)}), req({"S2": F(3, 2)}), req({})], maxrebal=2,
                        invariants=inv, properties=props))
    else:
        ms.append(model("reb-dy", ["S1", "F4"], ["quote", "trade", "rebal"], 5, fees="dy", dqs=(-2, 1), reqs=reqs_a,
                        maxrebal=2, **kw))
        ms.append(model("reb-free", ["S1", "F4"], ["quote", "trade", "rebal"], 5, fees="free", dqs=(-2, 1),
                        reqs=reqs_a[:5], **kw))
        reqs_b = [req({"S2": F(1), "G1": F(-1)}), req({"G1": F(3, 2)}), req({"S2": h}), req({"S2": F(-1)}),
                  req({"S2": F(2), "G1": F(5)}, measure="lots"), req({})]
        ms.append(model("reb-b", ["S2", "G1"], ["quote", "trade", "rebal"], 5, fees="dy", dqs=(-1, 2), reqs=reqs_b, maxrebal=2, **kw))
    # adjustments that are tiny RELATIVE to what is held (a few lots on several hundred thousand): a needed trade is a needed
    # trade whatever the size of the position it adjusts
    ms.append(model("lots-large", ["S1", "H2"], ["quote", "rebal"], 4, fees="free", bids=(8,), spreads=(0,), deposit=F(4000000),
                    reqs=[req({"S1": F(393216), "H2": F(-131072)}, measure="lots"),
                          req({"S1": F(393219), "H2": F(-131075)}, measure="lots"),
                          req({"S1": F(786439, 2)}, measure="lots", fractional=False)],
                    maxrebal=3, invariants=inv, properties=props))
    for m in ms:
        explore_and_replay(rep, m, clauses_of("C03"))
    # longer random behaviours (at most two rebalances each, so that exact rationals stay within TLC's integers)
    msim = model("reb-sim", ["S1", "F4"], ["quote", "trade", "rebal"], 4, fees="free", dqs=(-2, 1), reqs=reqs_a[:5], maxrebal=2, **kw)
    simulate(rep, msim, clauses_of("C03"), 1000 if tier == "quick" else 10000, 8 if tier == "quick" else 10, seed)
    # the same statement one level up: targets arrive as actions of a portfolio space declared in numbers of contracts
    # (Box and Discrete menus) and must be executed in that measure and reached exactly (Env.tla, replayed into TradingEnv)
    from . import env_check, props_env
    n = 4
    cs = props_env.bar_candidates(n, extras=False)
    em = env_check.env_model("lots-spaces", env_check.G[:n], cs, range(1, n + 1), 0, [0], [props_env.FOLD_ALL], [(False, -1)],
                             delays=(0, 1), spaces=("boxlots", "disclots"), maxcalls=n, reset_anywhere=False, trade=True)
    env_check.run_models(rep, [em], {"allocation", "lots_reached"})
    # a futures chain listed next to later contracts of the same chain (EnvFull.tla): after the roll the chain's target is
    # reached in its lead although that contract is also listed, with a zero of its own
    from . import envfull_check
    envfull_check.run_models(rep, [envfull_check.chain_members_model()], {"pos", "track_trades"})
    # code -> spec at the level of the whole environment: long random episodes of a real TradingEnv on a dyadic grid,
    # validated line by line by TLC (EnvLedgerTrace.tla)
    from . import envledger_check
    envledger_check.validate(rep, "C03", 8 if tier == "quick" else 120, seed, tier)
    return rep.finish()


def c12(tier, seed):
    rep = core.Report("C12", tier, seed)
    rep.assumptions = list(ASSUME) + [
        "thresholds {1/16, 1/8}; imbalance weights exactly at, 1/64 below and 1/64 above the threshold are generated in a "
        "dyadic model (prices 8 and 16, multipliers 1 and 2, no fees) in which binary floating point is exact; in "
        "non-dyadic models a contract whose imbalance weight equals the threshold exactly is not compared",
    ]
    inv = ["NoZeroTrades", "NoSpuriousFailure"]
    props = ["TradeIff"]
    t16, t8 = F(1, 16), F(1, 8)
    ws = [F(3, 64), F(4, 64), F(5, 64), F(-4, 64), F(-3, 64), F(7, 64), F(8, 64), F(9, 64)]
    reqs_d = []
    for thr in (t16, t8):
        for w in ws:
            reqs_d.append(req({"S1": w}, thr=thr))
        reqs_d.append(req({"H2": F(1, 2)}, thr=thr))          # S1, if held, is liquidated whatever its size
        reqs_d.append(req({"S1": F(1, 2), "H2": F(-1, 2)}, thr=thr))
    reqs_l = [req({"S1": F(5, 2)}, measure="lots", fractional=False), req({"S1": F(5, 2)}, measure="lots"),
              req({"S1": F(2), "H2": F(-7, 4)}, measure="lots", fractional=False),
              req({"S1": F(3, 16)}, fractional=False), req({"S1": F(1, 64), "H2": F(-1, 64)}, fractional=False),
              req({"H2": F(-1, 4)}, fractional=False, thr=t16), req({}, fractional=False)]
    ms = []
    depth = 4 if tier == "quick" else 5
    ms.append(model("thr-dyadic", ["S1", "H2"], ["quote", "rebal"], depth, fees="free", bids=(8,), spreads=(0, 8),
                    reqs=reqs_d, maxrebal=3 if tier == "quick" else 2, invariants=inv, properties=props, dyadic=True))
    ms.append(model("lots", ["S1", "H2"], ["quote", "trade", "rebal"], depth, fees="dy", bids=(8, 12), spreads=(0, 4),
                    dqs=(-1, 2), reqs=reqs_l, maxrebal=3 if tier == "quick" else 2, invariants=inv, properties=props))
    # a fractional position left by fractional trading, then whole-lot liquidations: 5/2 -> sell 2 -> 1/2 left, which a
    # further whole-lot rebalance must skip (not fail on)
    ms.append(model("lots-residual", ["S1", "H2"], ["quote", "rebal"], 5, fees="free", bids=(8,), spreads=(0,),
                    reqs=[req({"S1": F(5, 2)}, measure="lots"), req({}, fractional=False), req({"H2": F(1)}, measure="lots", fractional=False)],
                    maxrebal=3, invariants=inv, properties=props))
    # relative requests (absolute=False): the allocation is a change from the current holdings; held contracts that are not
    # mentioned are left alone
    reqs_r = [req({"S1": F(1, 4)}, absolute=False), req({"S1": F(-1, 8), "H2": F(1, 4)}, absolute=False, thr=t16),
              req({"S1": F(2)}, measure="lots", absolute=False), req({"H2": F(-3, 2)}, measure="lots", absolute=False, fractional=False),
              req({"S1": F(1, 2)})]
    ms.append(model("relative", ["S1", "H2"], ["quote", "rebal"], depth, fees="dy", bids=(8,), spreads=(0, 8), reqs=reqs_r,
                    maxrebal=2, invariants=inv, properties=props))
    # a standing request: the SAME request object is executed, and submitted again after prices moved; whole-lot imbalances
    # below one lot and drifts below the threshold must then be skipped, whatever the first execution traded
    ms.append(model("resubmit", ["S1", "H2"], ["quote", "prepare", "resubmit"], 5, fees="free", bids=(8, 12), spreads=(0,),
                    reqs=[req({"S1": F(1, 2)}, fractional=False), req({"S1": F(1, 4), "H2": F(-1, 4)}, thr=t16),
                          req({"S1": F(2), "H2": F(-1)}, measure="lots", fractional=False)],
                    maxrebal=3, invariants=inv, properties=props))
    # adjustments that are tiny RELATIVE to what is held (a few lots on several hundred thousand): a needed trade is a needed
    # trade whatever the size of the position it adjusts
    ms.append(model("lots-large", ["S1", "H2"], ["quote", "rebal"], 4, fees="free", bids=(8,), spreads=(0,), deposit=F(4000000),
                    reqs=[req({"S1": F(393216), "H2": F(-131072)}, measure="lots"),
                          req({"S1": F(393219), "H2": F(-131075)}, measure="lots"),
                          req({"S1": F(786439, 2)}, measure="lots", fractional=False)],
                    maxrebal=3, invariants=inv, properties=props))
    if tier != "quick":
        ms.append(model("thr-f4", ["S2", "F4"], ["quote", "trade", "rebal"], 5, fees="free", bids=(8, 12), spreads=(0, 4),
                        dqs=(-1, 2),
                        reqs=[req({"S2": F(1, 2), "F4": F(1, 8)}, thr=t8), req({"F4": F(1, 16)}, thr=t16),
                              req({"S2": F(-1, 4)}, thr=t8, fractional=False), req({"F4": F(1)}, thr=t16)],
                        maxrebal=2, invariants=inv, properties=props))
    for m in ms:
        explore_and_replay(rep, m, clauses_of("C12"))
    # longer random behaviours (one history per (state, last operation) is what the dumps above replay; simulation adds other
    # paths to the same states and deeper ones)
    simulate(rep, ms[1], clauses_of("C12"), 1000 if tier == "quick" else 10000, 8 if tier == "quick" else 10, seed)
    # the same filter reached through a portfolio space declared in whole numbers of contracts (EnvFull.tla, Measure = lots,
    # Fractional = FALSE): the traded quantity is the truncated IMBALANCE (target - held), whatever the target's own fraction
    from . import envfull_check as ef
    grid = ef.G[:5]
    ev = ef.bars(grid, {"S1": [8, 8, 8, 8, 8], "F4": [8, 8, 8, 8, 8]}, 0)
    em = ef.full_model("wholelot-lots-space", ["S1", "F4"], ["S1", "F4"], grid, ev,
                       [{"S1": F(3)}, {"S1": F(3, 2)}, {"S1": F(1, 2), "F4": F(-5, 2)}, {}], lats=(0,), delays=(0,), fees="free",
                       maxsteps=4, measure="lots", fractional=False, invariants=["LedgerReplay"])
    ef.run_models(rep, [em], {"pos", "track_trades"})
    # code -> spec at the level of the whole environment: long random episodes of a real TradingEnv on a dyadic grid,
    # validated line by line by TLC (EnvLedgerTrace.tla)
    from . import envledger_check
    envledger_check.validate(rep, "C12", 8 if tier == "quick" else 120, seed, tier)
    return rep.finish()
