"""Per-property model families on Broker.tla."""
from fractions import Fraction as F

from . import core
from .broker_check import model, req, explore_and_replay
from .replay_broker import CLAUSE_PROPS

BASE_OPS = ["quote", "trade", "value", "markall", "mark"]

ASSUME = [
    "grid domain: integer prices with even spreads, integer lots, multipliers {1,2,5}, margin requirements {1/4,1/2,1}, "
    "fees {(0,0),(1,1%)}, deposit 1000; comparisons at 1e-9 relative tolerance against exact rationals",
    "sequential single-threaded use of one Broker over one Exchange",
    "TLC explores the specification exhaustively to the stated depth; every distinct (state, last operation) is replayed "
    "into the real Broker with one history reaching it",
]


def clauses_of(prop):
    return {c for c, ps in CLAUSE_PROPS.items() if prop in ps}


def _ledger_models(tier, invariants, properties):
    """the C01 / C05 family"""
    ms = []
    if tier == "quick":
        for fees in ("paid", "free"):
            ms.append(model("sf-%s" % fees, ["S5", "F5"], BASE_OPS + ["lots"], 4, fees=fees,
                            lots=[{"S5": 1, "F5": -1}, {"F5": 2}],
                            invariants=invariants, properties=properties))
        ms.append(model("sf-etf-g1", ["S1", "G1"], BASE_OPS, 4, fees="paid", bids=(8, 10), dqs=(-3, -1, 1, 2),
                        invariants=invariants, properties=properties))
    else:
        for fees in ("paid", "free"):
            ms.append(model("sf-%s" % fees, ["S5", "F5"], BASE_OPS + ["lots"], 5, fees=fees,
                            lots=[{"S5": 1, "F5": -1}, {"F5": 2}, {"S5": -2}],
                            invariants=invariants, properties=properties))
            ms.append(model("sf3-%s" % fees, ["S1", "G1", "H2"], BASE_OPS, 5, fees=fees, bids=(8, 10, 12),
                            dqs=(-3, -1, 1, 2), invariants=invariants, properties=properties))
        ms.append(model("sf-interest", ["S5", "F5"], ["quote", "trade", "value", "accrue", "query", "lots"], 5,
                        fees="paid", rate=F(1, 100), markup=F(1, 200), steps=(1, 2), dqs=(-1, 2),
                        lots=[{"F5": 1}], invariants=invariants, properties=properties))
    return ms


def c01(tier, seed):
    rep = core.Report("C01", tier, seed)
    rep.assumptions = list(ASSUME)
    inv = ["SelfFinancing"]
    props = ["TradeDelta", "QuoteDelta", "Neutral"]
    for m in _ledger_models(tier, inv, props):
        explore_and_replay(rep, m, clauses_of("C01"))
    return rep.finish()


def c05(tier, seed):
    rep = core.Report("C05", tier, seed)
    rep.assumptions = list(ASSUME)
    inv = ["MarginInv", "NlvDecomposition"]
    for m in _ledger_models(tier, inv, []):
        explore_and_replay(rep, m, clauses_of("C05"))
    return rep.finish()


def c13(tier, seed):
    rep = core.Report("C13", tier, seed)
    rep.assumptions = list(ASSUME) + [
        "a Trade needs both sides of the quote in the library; the property only requires the side needed - a "
        "rejection for the other side is accepted as modelled",
    ]
    inv = ["ValueFailsLoudly", "RebalanceNeedsQuotes"]
    props = ["RebalanceAtomic"]
    depth = 4 if tier == "quick" else 5
    ms = [
        model("faults", ["S5", "F5"], ["quote", "half", "disc", "trade", "value", "lots"], depth, fees="paid",
              bids=(8,), spreads=(2,), dqs=(-1, 1), lots=[{"S5": 1, "F5": -1}, {"F5": 1}, {}],
              invariants=inv, properties=props),
    ]
    if tier != "quick":
        ms.append(model("faults-w", ["S1", "G1"], ["quote", "half", "disc", "trade", "value", "rebal"], 5, fees="free",
                        bids=(8,), spreads=(0, 2), dqs=(-1, 1),
                        reqs=[req({"S1": F(1, 2), "G1": F(-1, 2)}), req({"G1": F(1)}), req({})],
                        invariants=inv, properties=props))
    for m in ms:
        explore_and_replay(rep, m, clauses_of("C13"))
    return rep.finish()
