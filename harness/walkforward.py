"""C15, walk-forward splitting: a pure function.  TLC tabulates TransmitterOps!WalkForward for every
(N, train, test, sliding) in bounds and checks disjointness / adjacency / sizes on the table; the
harness compares the whole table with Transmitter.walk_forward (exhaustive in bounds)."""
from . import tlc, tlaval, tlagen

MODULE = """---- MODULE MCWF ----
EXTENDS TransmitterOps
CONSTANTS MaxN
VARIABLES p, folds
Init == /\\ p \\in [N : 2..MaxN, train : 1..MaxN, test : 1..MaxN, sliding : BOOLEAN]
        /\\ p.train + p.test <= p.N
        /\\ folds = WalkForward(p.N, p.train, p.test, p.sliding)
Next == UNCHANGED <<p, folds>>
\\* test windows: requested size, start right after their own training window, disjoint and ordered
TestWindows == \\A j \\in 1..Len(folds) :
    /\\ folds[j].test_end - folds[j].test_start + 1 = p.test
    /\\ folds[j].test_start = folds[j].train_end + 1
    /\\ folds[j].test_end <= p.N - 1
    /\\ j < Len(folds) => folds[j].test_end < folds[j + 1].test_start
TrainWindows == \\A j \\in 1..Len(folds) :
    /\\ folds[j].train_start >= 0
    /\\ p.sliding => folds[j].train_end - folds[j].train_start + 1 = p.train
    /\\ ~p.sliding => folds[j].train_start = 0
\\* the step of the window is the test size: consecutive test windows tile the tail without gaps
Tiling == \\A j \\in 1..(Len(folds) - 1) : folds[j + 1].test_start = folds[j].test_end + 1
NonEmpty == Len(folds) >= 1
====
"""


def check(rep, tier):
    from . import impl  # noqa: F401  (sets the import path)
    from tradingenv.transmitter import Transmitter
    from datetime import datetime, timedelta
    maxn = 10 if tier == "quick" else 14
    cfg = "CONSTANTS\n MaxN = %d\nINIT Init\nNEXT Next\nINVARIANT TestWindows\nINVARIANT TrainWindows\nINVARIANT Tiling\nINVARIANT NonEmpty\nCHECK_DEADLOCK FALSE\n" % maxn
    res = tlc.run("MCWF", MODULE, cfg, workers=4, dump=True, tag="C15-wf")
    try:
        rep.add_model("walk_forward", res, ["TestWindows", "TrainWindows", "Tiling", "NonEmpty"], [])
        if res.violated:
            rep.violation("model:" + res.violated, "model/walk_forward/" + res.violated,
                          "TLC: invariant %s violated by the walk-forward model" % res.violated, {"tlc": (res.trace or "")[:2000]})
            return
        n = 0
        for s in tlaval.iter_dump(res.dump_path):
            p = s["p"]
            ts = [datetime(2020, 1, 1) + timedelta(days=i) for i in range(p["N"])]
            tr = Transmitter(ts)
            out, f = impl.classify(lambda: tr.walk_forward(p["train"], p["test"], p["sliding"]))
            n += 1
            exp = [(x["train_start"], x["train_end"], x["test_start"], x["test_end"]) for x in s["folds"]]
            if out != "ok":
                rep.violation("walk_forward", "walk_forward/raise", "walk_forward%r raised %r" % (dict(p), f), {"p": dict(p)})
                continue
            got = list(zip(*[[int(v) for v in arr] for arr in (f.train_start, f.train_end, f.test_start, f.test_end)]))
            if got != exp:
                rep.violation("walk_forward", "walk_forward/%s" % ("sliding" if p["sliding"] else "expanding"),
                              "walk_forward(N=%d, train=%d, test=%d, sliding=%s) = %s, specification %s" % (
                                  p["N"], p["train"], p["test"], p["sliding"], got, exp),
                              {"kind": "walk_forward", "p": dict(p), "expected": exp, "got": got})
            if n <= 1:
                rep.sample({"model": "walk_forward", "p": dict(p), "folds": exp})
        rep.traces += n
        rep.evaluations += n
        rep.count("walk_forward:tables", n)
    finally:
        tlc.rm_workdir(res.workdir)
