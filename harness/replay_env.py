"""Spec -> code for Env.tla: build a real Transmitter + TradingEnv from a model configuration, drive it
through the calls of a TLC-generated history and compare, call by call, what the observers saw
(which events, in which order, under which clock, before or after the execution), what was
executed (which action, at which quotes, with which stamp) and what the call returned.
"""
import bisect
import random
from datetime import datetime, timedelta

import numpy as np

from . import impl
from tradingenv.env import TradingEnv
from tradingenv.transmitter import Transmitter
from tradingenv.events import IEvent, EventNBBO, EventContractDiscontinued
from tradingenv.features import Feature
from tradingenv.contracts import ETF, AbstractContract
from tradingenv.spaces import BoxPortfolio, DiscretePortfolio
from tradingenv.broker.broker import EndOfEpisodeError

BASE = datetime(2019, 1, 7)
MARKET = ("q", "x", "d")

CLAUSE_PROPS = {
    "delivery": ["C04"],      # which events reached the observers during the call (exactly once, on time, never late)
    "order": ["C04"],         # same events, different order
    "clock": ["C04"],         # clock seen by an observer / env.now() is not the latest market event
    "observer": ["C04"],      # an observer subscribed to a type missed / got twice an event of that type
    "latency": ["C04", "C08"],  # applied on the wrong side of the execution
    "fifo": ["C08"],          # executed action is not the one submitted d steps earlier
    "books": ["C08"],         # quotes seen by the execution
    "trade_price": ["C08"],   # price of the executed trades is not the quote at the execution
    "null_action": ["C08"],   # the null action of the first d steps was rejected
    "stamp": ["C07"],         # time stamp of the execution
    "done": ["C15"],          # the episode does not end after exactly the configured number of decisions
    "starts": ["C15"],        # candidate set offered to the episode-start draw
    "refused": ["C15"],       # an episode that does not fit was not refused / one that fits was
    "steps": ["C15"],         # timesteps visited
    "ended": ["C09"],         # step after the end of the episode not refused
    "malformed_executed": ["C17"],
    "malformed_late": ["C17"],
    "malformed_effect": ["C17"],
    "allocation": ["C17", "C03"],    # an in-space action executed as a different allocation (other vector, other measure)
    "lots_reached": ["C03"],  # a target in numbers of contracts is not the position held after its execution
    "out": [],                # unexpected outcome class of a call (classified further by the caller)
}


def T(t, tick=1):
    """model time -> datetime; tick = seconds per model time unit (a Fraction for sub-second lattices)"""
    if tick == 1:
        return BASE + timedelta(seconds=int(t))
    return BASE + timedelta(microseconds=int(round(t * tick * 1000000)))


class EventX(IEvent):
    def __init__(self, time, vid):
        self.time = time
        self.vid = vid


class Sink:
    def __init__(self):
        self.entries = []
        self.env = None
        self.ids = {}
        self.exec = None

    def add(self, kind, event):
        env = self.env
        self.entries.append({
            "kind": kind,
            "id": self.ids.get(id(event), getattr(event, "vid", 0)) if kind in MARKET else 0,
            "t": event.time,
            "clk": env._now if env is not None else None,
            "gnow": AbstractContract.now,
        })


class Rec(Feature):
    """Recording observer, subscribed to every event class in play; appended last, so the exchange
    has already processed the event when it is called."""

    def __init__(self, sink):
        Feature.__init__(self, name="verif-rec", save=False)
        self.sink = sink

    def process_EventNBBO(self, event):
        self.sink.add("q", event)

    def process_EventX(self, event):
        self.sink.add("x", event)

    def process_EventContractDiscontinued(self, event):
        self.sink.add("d", event)

    def process_EventReset(self, event):
        self.sink.add("reset", event)

    def process_EventStep(self, event):
        self.sink.add("step", event)

    def process_EventDone(self, event):
        self.sink.add("done", event)

    def process_EventNewDate(self, event):
        self.sink.add("newdate", event)


class RecX(Feature):
    """A second observer subscribed to the custom event type only."""

    def __init__(self, sink):
        Feature.__init__(self, name="verif-recx", save=False)
        self.sink = sink

    def process_EventX(self, event):
        self.sink.add("x", event)


class RecXInherited(RecX):
    """A third observer whose callback is only inherited from its base class: a callback is a callback whether the class
    defines it or inherits it."""

    def __init__(self, sink):
        Feature.__init__(self, name="verif-recx-inherited", save=False)
        self.sink = sink


N_ALLOC = 16
LOTS = ("boxlots", "disclots")


class World:
    def __init__(self, cfg, trade, seed=0, extra_features=None):
        self.cfg = cfg
        self.trade = trade
        self.tick = tick = cfg.get("tick", 1)
        self.grid = list(cfg["grid"])
        self.A, self.B = ETF("A"), ETF("B")
        self.contracts = {"A": self.A, "B": self.B}
        self.sink, self.sinkx, self.sinkx2 = Sink(), Sink(), Sink()
        rnd = random.Random(seed)
        ts = [T(t, tick) for t in self.grid] + [T(self.grid[rnd.randrange(len(self.grid))], tick) for _ in range(2)]
        rnd.shuffle(ts)
        warm = (T(cfg["warmup"], tick) - BASE) if cfg["warmup"] >= 0 else None
        fend = T(cfg["fend"], tick) if cfg["fend"] < 2000000000 else T(2000000000)
        extend = cfg.get("reuse_transmitter") == "extend" and len(self.grid) >= 3
        first_ts = [t for t in ts if t <= T(self.grid[len(self.grid) // 2 - 1], tick)] if extend else ts
        tr = Transmitter(first_ts, folds={"f": [T(cfg["fstart"], tick), fend]}, markov_reset=bool(cfg["markov"]),
                         warmup=warm)
        self.events = []
        for e in cfg["events"]:
            if e["kind"] == "q":
                ev = EventNBBO(T(e["t"], tick), self.contracts[e["c"]], float(e["bid"]), float(e["ask"]))
            elif e["kind"] == "x":
                ev = EventX(T(e["t"], tick), e["id"])
            else:
                ev = EventContractDiscontinued(T(e["t"], tick), self.contracts[e["c"]])
            self.sink.ids[id(ev)] = e["id"]
            self.sinkx.ids[id(ev)] = e["id"]
            self.sinkx2.ids[id(ev)] = e["id"]
            self.events.append(ev)
        if extend:
            # the Transmitter first serves another environment with only the first half of the data (and is reset once),
            # then it is extended with the remaining timesteps and events and handed to the environment under test
            cutoff = T(self.grid[len(self.grid) // 2 - 1], tick)
            early = [ev for ev in self.events if ev.time <= cutoff]
            if early:
                # every other time the WHOLE history is loaded up front (the first environment simply uses a shorter grid): the
                # events beyond that grid's end are not due yet, they are not gone
                whole = len(self.events) % 2 == 1
                tr.add_events(list(self.events) if whole else list(early))
                pre = TradingEnv(action_space=BoxPortfolio([self.A, self.B], low=0.0, high=1.0), transmitter=tr,
                                 latency=float(cfg["lat"] * tick))
                impl.classify(lambda: pre.reset(fold="f"))
                tr.add_timesteps([t for t in ts if t > cutoff])
                if not whole:
                    tr.add_events([ev for ev in self.events if ev.time > cutoff])
            else:
                tr.add_timesteps([t for t in ts if t > cutoff])
                tr.add_events(list(self.events))
        elif self._custom_loadable(cfg):
            # custom events loaded from a DataFrame (Transmitter.add_custom_events builds the event objects itself); legal only
            # when none of them shares a stamp with another kind of event, so that insertion order among ties is unchanged
            import pandas as pd
            xs = [e for e in cfg["events"] if e["kind"] == "x"]
            tr.add_events([ev for ev, e in zip(self.events, cfg["events"]) if e["kind"] != "x"])
            frame = pd.DataFrame({"vid": [e["id"] for e in xs]}, index=pd.DatetimeIndex([T(e["t"], tick) for e in xs]))
            if sum(e["id"] for e in xs) % 2 == 1:
                # the table also has a 'time' column (the period a release refers to, a day before its publication): the stamp
                # of the event is the row's index all the same
                frame["time"] = [T(e["t"], tick) - timedelta(days=1) for e in xs]
            tr.add_custom_events(frame, EventX)
        elif len(self.events) >= 3 and len(self.events) % 3 != 0:
            # loaded in two batches that overlap in time (e.g. bars first, ticks later): the stream is the union of its batches
            h = len(self.events) // 2
            tr.add_events(list(self.events[:h]))
            tr.add_events(list(self.events[h:]))
        else:
            tr.add_events(list(self.events))
        if cfg["space"] == "discrete":
            space = DiscretePortfolio([self.A, self.B], [[k / 16.0, 0.0] for k in range(N_ALLOC)])
        elif cfg["space"] == "discoff":
            # a menu whose entry 0 is NOT flat (the flat allocation is its last entry): the null action of a discrete space is
            # action 0, whatever it denotes
            space = DiscretePortfolio([self.A, self.B], [[((k + 1) % N_ALLOC) / 16.0, 0.0] for k in range(N_ALLOC)])
        elif cfg["space"] == "boxcash":
            space = BoxPortfolio([impl.Cash(), self.A, self.B], low=0.0, high=1.0)
        elif cfg["space"] == "boxlots":
            space = BoxPortfolio([self.A, self.B], low=0.0, high=float(N_ALLOC), as_weights=False)
        elif cfg["space"] == "disclots":
            # a menu of allocations expressed in numbers of contracts
            space = DiscretePortfolio([self.A, self.B], [[float(k), 0.0] for k in range(N_ALLOC)], as_weights=False)
        elif cfg["space"] == "boxvec":
            # per-contract bounds: each entry is judged against the bounds of its own contract
            space = BoxPortfolio([self.A, self.B], low=np.array([-0.5, 0.0]), high=np.array([1.0, 0.25]))
        elif cfg["space"] == "boxpos":
            # bounds that exclude zero: the all-zero action is NOT a member of this space
            space = BoxPortfolio([self.A], low=1.0 / 32, high=1.0)
        else:
            space = BoxPortfolio([self.A, self.B], low=0.0, high=1.0)
        if cfg.get("reuse_transmitter") is True:
            # the same Transmitter served another environment first, configured with a different latency
            other = 0.0 if cfg["lat"] else float(min(b - a for a, b in zip(self.grid, self.grid[1:])) * tick) / 2.0
            TradingEnv(action_space=BoxPortfolio([self.A, self.B], low=0.0, high=1.0), transmitter=tr, latency=other)
        feats = (extra_features(self) if extra_features else []) + [Rec(self.sink), RecX(self.sinkx), RecXInherited(self.sinkx2)]
        self.env = TradingEnv(action_space=space, state=feats, transmitter=tr,
                              latency=float(cfg["lat"] * tick), steps_delay=cfg["delay"],
                              episode_length=(cfg["eplen"] or None), initial_cash=1000.0,
                              sampling_span=((2 if len(cfg["events"]) > 1000 else 3)
                                             if (cfg["eplen"] and len(cfg["events"]) % 2 == 0) else None))
        if cfg["lat"] and len(cfg["events"]) % 2 == 0 and len(cfg["events"]) < 1000:
            # more data is scheduled on the Transmitter once the environment exists: an event stamped a week after the end of
            # the grid (it is never delivered, and nothing else changes)
            tr.add_events([EventX(T(self.grid[-1], tick) + timedelta(days=7), 10 ** 6)])
        self.sink.env = self.env
        self.sinkx.env = self.env
        self.sinkx2.env = self.env
        self.draw = None

    @staticmethod
    def _custom_loadable(cfg):
        xs = [e for e in cfg["events"] if e["kind"] == "x"]
        if not xs or len(cfg["events"]) % 2 == 0 or cfg.get("reuse_transmitter"):
            return False
        other = {e["t"] for e in cfg["events"] if e["kind"] != "x"}
        return not any(e["t"] in other for e in xs)

    # ------------------------------------------------------------------ calls
    def _wrap_broker(self):
        b = self.env.broker
        orig = b.rebalance
        sink = self.sink
        ex = self.env.exchange
        contracts = self.contracts

        def _f(v):
            try:
                return float(v)
            except Exception:  # noqa: BLE001 - the observer never interferes with what it observes
                try:
                    return float(np.asarray(v, dtype=float).ravel()[0])
                except Exception:  # noqa: BLE001
                    return float("nan")

        def wrapped(r):
            sink.exec = {
                "pos": len(sink.entries),
                "stamp": r.time,
                "alloc": {c.symbol: _f(v) for c, v in r.allocation.items()},
                "measure": type(r.allocation).__name__, "fractional": bool(r.fractional),
                "books": {n: (ex[c].bid_price, ex[c].ask_price, ex[c].is_alive) for n, c in contracts.items()},
                "rebalancing": r,
            }
            return orig(r)
        b.rebalance = wrapped

    def reset(self, start, rl=0):
        self.eff_eplen = (rl - 1) if rl else self.cfg["eplen"]
        self.sink.entries.clear()
        self.sinkx.entries.clear()
        self.sinkx2.entries.clear()
        self.sink.exec = None
        self.draw = None
        orig = np.random.choice
        me = self

        def choice(a, size=None, replace=True, p=None):
            n = len(a) if hasattr(a, "__len__") else int(a)
            me.draw = {"n": n, "p": None if p is None else [float(x) for x in p]}
            if n <= 0:
                return orig(a, size, replace, p)          # let numpy refuse the empty draw itself
            if p is not None and not all(x == x and x >= 0 for x in me.draw["p"]):
                return orig(a, size, replace, p)          # ... and probabilities that are not probabilities
            return list(a)[start - 1] if hasattr(a, "__len__") else start - 1
        np.random.choice = choice
        try:
            if rl:
                out, val = impl.classify(lambda: self.env.reset(fold="f", episode_length=rl))
            else:
                out, val = impl.classify(lambda: self.env.reset(fold="f"))
        finally:
            np.random.choice = orig
        if out == "ok":
            self._wrap_broker()
        return out, val

    def backtest(self, start, rl, acts):
        """the same episode through TradingEnv.backtest with a policy that replays the given actions"""
        from tradingenv.policy import AbstractPolicy
        me = self
        seq = [self.action(a) for a in acts]

        class Replay(AbstractPolicy):
            def __init__(self):
                self.k = 0

            def act(self, state=None):
                a = seq[self.k] if self.k < len(seq) else seq[-1]
                self.k += 1
                return a

            def __repr__(self):
                return "verif-replay"
        orig = np.random.choice

        def choice(a, size=None, replace=True, p=None):
            n = len(a) if hasattr(a, "__len__") else int(a)
            if n <= 0:
                return orig(a, size, replace, p)
            return list(a)[start - 1] if hasattr(a, "__len__") else start - 1
        np.random.choice = choice
        try:
            pol = Replay()
            out, val = impl.classify(lambda: me.env.backtest(fold="f", policy=pol, episode_length=(rl or None)))
        finally:
            np.random.choice = orig
        return out, val, pol.k

    def expected_alloc(self, j):
        """allocation denoted by the j-th in-space action (0 = null action)"""
        if self.cfg["space"] == "discoff":
            k = 0 if (j == 0 or not self.trade) else (j % (N_ALLOC - 1)) + 1
            v = ((k + 1) % N_ALLOC) / 16.0
            return {"A": v} if v else {}
        if j == 0 or not self.trade:
            return {}
        k = (j % (N_ALLOC - 1)) + 1
        return {"A": float(k) if self.cfg["space"] in LOTS else k / 16.0}

    def action(self, act):
        j, cls = act["id"], act["cls"]
        sp = self.cfg["space"]
        if cls == "column" and sp in ("discrete", "disclots", "discoff", "boxpos"):
            cls = "index"              # (there the nested / fractional index class already is the wrongly shaped action)
        k = ((j % (N_ALLOC - 1)) + 1) if self.trade else 0
        hi = float(N_ALLOC) if sp == "boxlots" else 1.0
        unit = float(k) if sp == "boxlots" else k / 16.0
        if sp in ("discrete", "disclots", "discoff"):
            if cls == "ok":
                return int(k)
            return {"shape": N_ALLOC, "above": N_ALLOC + 3, "below": -1, "nan": float("nan"), "index": 2.5}[cls]
        if sp == "boxpos":
            if cls == "ok":
                return np.array([unit])
            return {"shape": np.array([unit, 0.0]), "above": np.array([1.5]), "below": np.array([0.0]),
                    "nan": np.array([float("nan")]), "index": np.array([[unit]])}[cls]
        if cls == "column":
            # the right entries in the wrong shape: a column vector (n, 1)
            n_ = 3 if sp == "boxcash" else 1 if sp == "boxpos" else 2
            return np.array([[0.5 if (sp == "boxcash" and i == 0) else (unit if i == (1 if sp == "boxcash" else 0) else 0.0)] for i in range(n_)])
        if sp == "boxvec" and cls in ("above", "below"):
            # outside the bounds of its own contract, inside the loosest bounds of the space
            return np.array([unit, 0.5]) if cls == "above" else np.array([unit, -0.25])
        lead = [0.5] if sp == "boxcash" else []
        if cls == "ok":
            return np.array(lead + [unit, 0.0])
        return {"shape": np.array(lead + [unit, 0.0, 0.0]), "above": np.array(lead + [hi * 1.5, 0.0]),
                "below": np.array(lead + [0.0, -0.25]), "nan": np.array(lead + [float("nan"), 0.0]),
                "index": np.array([lead + [unit, 0.0]])}[cls]

    def step(self, act):
        self.sink.entries.clear()
        self.sinkx.entries.clear()
        self.sinkx2.entries.clear()
        self.sink.exec = None
        a = self.action(act)
        # a policy's pre-allocated buffer: the same array object is overwritten in place and submitted at every step (what
        # an action denotes is its content when it is submitted, not the identity of the object carrying it)
        if isinstance(a, np.ndarray) and a.dtype == float and a.ndim == 1 and act["cls"] == "ok" \
                and (len(self.cfg["events"]) + self.cfg["delay"]) % 2 == 1:
            # ... every other configuration the carrier is a plain Python list (a Box action may be any sequence of floats),
            # recycled the same way
            lb = getattr(self, "_lbuf", None)
            if lb is not None and len(lb) == len(a):
                lb[:] = [float(x) for x in a]
                a = lb
            else:
                self._lbuf = a = [float(x) for x in a]
        elif isinstance(a, np.ndarray) and a.dtype == float:
            buf = getattr(self, "_buf", None)
            if buf is not None and buf.shape == a.shape:
                buf[...] = a
                a = buf
            else:
                self._buf = a
        try:
            r = self.env.step(a)
            return "ok", r
        except EndOfEpisodeError as e:
            return ("ended" if self.env._done else "broke"), e
        except Exception as e:  # noqa: BLE001
            return "error", e


def soft_ids(cfg, start, eplen=None):
    """events the statement leaves unconstrained (stamped before the warm-up horizon, timestep inside it)"""
    if cfg["warmup"] < 0 or cfg["markov"] or not cfg["fsteps"]:
        return set()
    grid = list(cfg["grid"])
    steps = list(cfg["fsteps"])
    eplen = cfg["eplen"] if eplen is None else eplen
    if eplen:
        steps = steps[start - 1: start + eplen]
    first = steps[0]                      # 1-based grid index
    origin = grid[first - 1] - cfg["warmup"]
    out = set()
    for e in cfg["events"]:
        if e["t"] > grid[-1]:
            continue
        slot = bisect.bisect_left(grid, e["t"]) + 1
        if slot < first and e["t"] < origin <= grid[slot - 1]:
            out.add(e["id"])
    return out


_TICK = [1]


def _secs(t):
    """datetime -> model time units"""
    if t is None:
        return -1
    if hasattr(t, "to_pydatetime"):
        t = t.to_pydatetime()
    d = t - BASE
    if _TICK[0] == 1:
        return int(round(d.total_seconds()))
    us = d.days * 86400000000 + d.seconds * 1000000 + d.microseconds
    return int(round(us / (float(_TICK[0]) * 1000000)))


def compare_call(w, rec, out, val, soft, track_before, pos_before):
    """-> list of (clause, detail)"""
    fails = []
    cfg = w.cfg
    exp_out = rec["out"]
    call = rec["call"]
    if out != exp_out:
        if call == "reset":
            fails.append(("refused", "reset outcome %s (%r), spec %s" % (out, val, exp_out)))
        elif exp_out == "ended":
            fails.append(("ended", "step after the end of the episode: outcome %s, must be refused" % out))
        elif exp_out == "error":
            if w.sink.exec is not None or len(w.env.broker.track_record) != track_before:
                fails.append(("malformed_executed", "malformed action %s (%s) was executed" % (rec["act"]["id"], rec["act"]["cls"])))
            else:
                fails.append(("malformed_late", "malformed action due at this step was not rejected: outcome %s" % out))
        elif rec["act"]["cls"] == "ok" and cfg["bad"]["at"] == 0 and out == "error" and call == "step" \
                and len(w.env.broker.track_record) == track_before and rec.get("exec") and rec["exec"][0]["act"] == 0:
            fails.append(("null_action", "the null action of the first %d step(s) was rejected: %r" % (cfg["delay"], val)))
        else:
            fails.append(("out", "call %s outcome %s (%r), spec %s" % (call, out, val, exp_out)))
        return fails
    if out == "error" and call == "step":
        if w.sink.exec is not None or len(w.env.broker.track_record) != track_before:
            fails.append(("malformed_executed", "malformed action reached the broker"))
        if w.env.broker.holdings_quantity != pos_before:
            fails.append(("malformed_effect", "holdings changed by a rejected action"))
    if out in ("error", "ended"):
        return fails
    # ---------------------------------------------------------------- delivered notifications
    execpos = w.sink.exec["pos"] if w.sink.exec else None
    got = []
    for i, e in enumerate(w.sink.entries):
        if e["kind"] in MARKET and e["id"] in soft:
            continue
        got.append((e["kind"], e["id"], _secs(e["t"]), _secs(e["clk"]),
                    bool(execpos is not None and i < execpos)))
    exp = [(r["kind"], r["id"], r["t"], r["clk"], bool(r["pre"])) for r in rec["log"]
           if not (r["kind"] in MARKET and r["id"] in soft)]
    g_ev = sorted((k, i, t) for (k, i, t, c, p) in got)
    e_ev = sorted((k, i, t) for (k, i, t, c, p) in exp)
    if g_ev != e_ev:
        fails.append(("delivery", "observers saw %s, spec %s" % ([x[:3] for x in got], [x[:3] for x in exp])))
    else:
        if [x[:3] for x in got] != [x[:3] for x in exp]:
            fails.append(("order", "observers saw %s in that order, spec %s" % ([x[:3] for x in got], [x[:3] for x in exp])))
        else:
            for g, x in zip(got, exp):
                if g[3] != x[3]:
                    fails.append(("clock", "clock %s while delivering %s stamped %s; the latest market event is %s" % (
                        g[3], g[0], g[2], x[3])))
                    break
            for g, x in zip(got, exp):
                if g[0] in MARKET and g[4] != x[4] and call == "step":
                    fails.append(("latency", "event %s at %s applied %s the execution, spec %s" % (
                        g[1], g[2], "before" if g[4] else "after", "before" if x[4] else "after")))
                    break
        gx = [e["id"] for e in w.sinkx.entries if e["id"] not in soft]
        ex = [r["id"] for r in rec["log"] if r["kind"] == "x" and r["id"] not in soft]
        if gx != ex:
            fails.append(("observer", "observer of the custom event type saw %s, spec %s" % (gx, ex)))
        gx2 = [e["id"] for e in w.sinkx2.entries if e["id"] not in soft]
        if gx2 != ex:
            fails.append(("observer", "observer inheriting its callback for the custom event type saw %s, spec %s" % (gx2, ex)))
    now = _secs(w.env.now())
    if now != rec["now"]:
        fails.append(("clock", "env.now() = %s after the call, latest market event delivered is %s" % (now, rec["now"])))
    # ---------------------------------------------------------------- return value
    if call == "step":
        done = bool(val[2])
        if done != bool(rec["done"]):
            fails.append(("done", "step %s returned done=%s, spec %s" % (rec["act"]["id"], done, rec["done"])))
        x = rec["exec"][0] if rec["exec"] else None
        if x is not None:
            if w.sink.exec is None:
                fails.append(("fifo", "no execution reached the broker"))
            else:
                got_x = w.sink.exec
                if w.trade:
                    exp_alloc = w.expected_alloc(x["act"])
                    ga = got_x["alloc"]
                    exp_measure = "NrContracts" if cfg["space"] in LOTS else "Weights"
                    if got_x.get("measure") != exp_measure:
                        fails.append(("allocation", "action executed as %s, the space denotes %s" % (got_x.get("measure"), exp_measure)))
                    if got_x.get("fractional") is not True:
                        fails.append(("allocation", "action executed in whole lots although the space was declared with fractional lots"))
                    bk = x["books"].get("A")
                    if cfg["space"] in LOTS and bk and bk["alive"] and bk["bid"] > 0 and isinstance(val, tuple):
                        held = float(w.env.broker.holdings_quantity.get(w.A, 0.0))
                        if abs(held - exp_alloc.get("A", 0.0)) > 1e-9:
                            fails.append(("lots_reached", "target of %s contracts executed against a live book, position afterwards %r" % (
                                exp_alloc.get("A", 0.0), held)))
                    if set(ga) != set(exp_alloc) or any(abs(ga[c] - exp_alloc[c]) > 1e-12 for c in ga):
                        msg = ("executed allocation %s at step %s, spec: the action submitted %d step(s) earlier "
                               "(id %s) denotes %s" % (ga, x["call"], cfg["delay"], x["act"], exp_alloc))
                        fails.append(("fifo", msg))
                        fails.append(("allocation", msg))
                if _secs(got_x["stamp"]) != x["stamp"]:
                    fails.append(("stamp", "execution stamped %s, latest event processed before it is %s" % (
                        _secs(got_x["stamp"]), x["stamp"])))
                for n, b in x["books"].items():
                    gb = got_x["books"][n]
                    if b["alive"] and b["bid"] > 0:
                        ok = gb[2] and gb[0] == float(b["bid"]) and gb[1] == float(b["ask"])
                    elif not b["alive"]:
                        ok = (not gb[2]) and gb[0] != gb[0]
                    else:
                        ok = gb[0] != gb[0] and gb[2]
                    if not ok:
                        fails.append(("books", "execution of step %s saw %s = %s, spec %s" % (x["call"], n, gb, b)))
                info = val[3]
                r = info.get("_rebalancing") if isinstance(info, dict) else None
                if r is not None and w.trade:
                    for t in r.trades:
                        b = x["books"][t.contract.symbol]
                        if not (t.bid_price == float(b["bid"]) and t.ask_price == float(b["ask"])):
                            fails.append(("trade_price", "trade %r priced at %s/%s, quotes at the execution %s" % (
                                t, t.bid_price, t.ask_price, b)))
    else:
        # reset: candidate set of the start draw
        if w.eff_eplen:
            n_valid = max(0, len(cfg["fsteps"]) - w.eff_eplen)
            if w.draw is None or w.draw["n"] != n_valid:
                fails.append(("starts", "start drawn among %s candidates, %d positions fit the episode" % (
                    None if w.draw is None else w.draw["n"], n_valid)))
            elif w.draw["p"] is not None and any(not (x > 0) for x in w.draw["p"]):
                fails.append(("starts", "a valid start has probability 0"))
    return fails


def run_case(cfg, hist, trade, seed=0, owned=None):
    """-> (fails [(call index, clause, detail)], calls executed)"""
    _TICK[0] = cfg.get("tick", 1)
    w = World(cfg, trade, seed)
    fails = []
    soft = set()
    n = 0
    for i, rec in enumerate(hist):
        n += 1
        if rec["call"] == "reset":
            rl = rec["act"]["id"]
            if rec["out"] == "ok":
                soft = soft_ids(cfg, rec["start"], (rl - 1) if rl else None)
            out, val = w.reset(rec["start"] or 1, rl)
            tb, pb = 0, None
        else:
            tb = len(w.env.broker.track_record)
            pb = w.env.broker.holdings_quantity
            out, val = w.step(rec["act"])
        fs = compare_call(w, rec, out, val, soft, tb, pb)
        for c, d in fs:
            fails.append((i, c, d))
        if out != rec["out"] or out == "error" or (fs and (owned is None or any(c in owned for c, _ in fs))):
            break
    return fails, n
