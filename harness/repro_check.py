"""C10, reproducibility on one environment: on Env.tla behaviours with resets anywhere (abandoned episodes, episodes ended by a
malformed action), the episode after the last reset must be bit-identical to the same episode on a freshly built environment.
Reuses the C04/C17 model families (features with history, latency, delay, folds, markov / warm-up resets)."""
import struct

import numpy as np

from . import tlaval, explore
from . import env_check, props_env


def hx(x):
    return struct.pack("<d", float(x)).hex()


def _snap(w, call, out, val):
    import copy
    from . import impl
    o = {"outcome": out}
    if out != "ok":
        return o
    env = w.env
    if call == "step":
        o["reward"] = hx(val[1])
        o["done"] = bool(val[2])
    o["now"] = str(env.now())
    o["delivered"] = [(e["kind"], e["id"], str(e["t"]), str(e["clk"]), str(e["gnow"])) for e in w.sink.entries]
    o["holdings"] = sorted((c.symbol, hx(q)) for c, q in env.broker.holdings_quantity.items())
    b = copy.deepcopy(env.broker)
    o1, v1 = impl.classify(lambda: b.net_liquidation_value(False))
    o["nlv"] = hx(v1) if o1 == "ok" else o1
    tr = env.broker.track_record
    o["track"] = [(str(tr[i].time), hx(tr[i].context_pre.nlv), hx(tr[i].context_post.nlv)) for i in range(len(tr))]
    # observation features with history: what the state and the features have recorded so far in this episode
    st = env.state
    o["state_history"] = [str(k) for k in (st.history or {})]
    o["feature_history"] = []
    for f in (st.features or []):
        if getattr(f, "save", False):
            h = f.history or {}
            o["feature_history"].append((f.name, [(str(k), np.asarray(v, dtype=float).tobytes().hex()) for k, v in h.items()]))
    o["exec"] = None if w.sink.exec is None else (sorted(w.sink.exec["alloc"].items()), str(w.sink.exec["stamp"]),
                                                  sorted((k, str(v)) for k, v in w.sink.exec["books"].items()))
    return o


def replay_chunk(ctx, texts):
    from . import replay_env
    out = {"n": 0, "ops": 0, "fails": [], "classes": {}, "sample": None}
    for text in texts:
        s = tlaval.parse_state(text)
        if s["ncalls"] != ctx["maxcalls"]:
            continue
        hist = list(s["hist"])
        resets = [i for i, r in enumerate(hist) if r["call"] == "reset" and r["out"] == "ok"]
        if len(resets) < 2 or resets[-1] == len(hist):
            continue
        cfg = s["cfg"]
        last = resets[-1]
        from .nolook_check import _obs_feature
        Obs = _obs_feature()
        # the environment with the history is built on a Transmitter that first served another environment configured with a
        # different latency; the fresh one gets a Transmitter of its own: same configuration, same results
        cfg_used = dict(cfg)
        cfg_used["reuse_transmitter"] = True
        w = replay_env.World(cfg_used, ctx["trade"], seed=3, extra_features=lambda ww: [Obs(ww.A, ww.B)])
        got = []
        for rec in hist:
            if rec["call"] == "reset":
                o, v = w.reset(rec["start"] or 1, rec["act"]["id"])
            else:
                o, v = w.step(rec["act"])
            got.append(_snap(w, rec["call"], o, v))
            out["ops"] += 1
        fresh = replay_env.World(cfg, ctx["trade"], seed=3, extra_features=lambda ww: [Obs(ww.A, ww.B)])
        bad = None
        for i, rec in enumerate(hist[last:]):
            if rec["call"] == "reset":
                o, v = fresh.reset(rec["start"] or 1, rec["act"]["id"])
            else:
                o, v = fresh.step(rec["act"])
            r = _snap(fresh, rec["call"], o, v)
            out["ops"] += 1
            if r != got[last + i]:
                diff = [k for k in r if r[k] != got[last + i].get(k)] or ["outcome"]
                bad = "after %s and a reset, call %d of the new episode differs from a freshly built environment in %s: %r vs %r" % (
                    "".join(x["call"][0] + ("!" if x["out"] != "ok" else "") for x in hist[:last]), i, diff[0],
                    got[last + i].get(diff[0]), r.get(diff[0]))
                break
        # the same episode once more through TradingEnv.backtest (the entry point of back-testing users) with a policy that
        # replays the actions: when the last episode ran to its end, the track record is the one of the step loop
        ep = hist[last:]
        if bad is None and len(ep) >= 2 and ep[-1]["call"] == "step" and ep[-1]["out"] == "ok" and ep[-1]["done"] \
                and all(r["out"] == "ok" for r in ep):
            bt = replay_env.World(cfg, ctx["trade"], seed=3, extra_features=lambda ww: [Obs(ww.A, ww.B)])
            o, tr, used = bt.backtest(ep[0]["start"] or 1, ep[0]["act"]["id"], [r["act"] for r in ep[1:]])
            out["ops"] += len(ep)
            out["classes"]["backtest-compared"] = out["classes"].get("backtest-compared", 0) + 1
            if o != "ok":
                bad = "backtest() of the episode that the step loop completed raised %r" % (tr,)
            else:
                t2 = [(str(tr[i].time), hx(tr[i].context_pre.nlv), hx(tr[i].context_post.nlv)) for i in range(len(tr))]
                h2 = sorted((c.symbol, hx(q)) for c, q in bt.env.broker.holdings_quantity.items())
                if used != len(ep) - 1:
                    bad = "backtest() asked the policy for %d actions, the step loop needed %d to reach the end" % (used, len(ep) - 1)
                elif t2 != got[-1]["track"] or h2 != got[-1]["holdings"]:
                    bad = "backtest() with the same actions leaves track record / holdings %r / %r, the step loop %r / %r" % (
                        t2[-2:], h2, got[-1]["track"][-2:], got[-1]["holdings"])
        out["n"] += 1
        k = "".join(x["call"][0] for x in hist)
        out["classes"][k] = out["classes"].get(k, 0) + 1
        if bad and len(out["fails"]) < 30:
            out["fails"].append({"clause": "reproducible", "key": "reproducible/%s/lat%s" % (env_check._mode(cfg), "0" if cfg["lat"] == 0 else "N"),
                                 "detail": bad, "case": {"kind": "repro", "cfg": {k2: v for k2, v in cfg.items() if k2 != "part"},
                                                         "hist": [(x["call"], x["act"], x["out"]) for x in hist]}})
    return out


def check(rep, tier):
    ms = props_env.c04_models(tier, maxopt=2 if tier == "quick" else 3) + props_env.repro_models(tier)
    for m in ms:
        ctx = dict(m["ctx"])
        explore.explore_and_replay(rep, "repro-" + m["name"], m["module"], m["cfg"], ("harness.repro_check", "replay_chunk"), ctx,
                                   {"reproducible"}, m["invariants"], m["properties"], chunk=200)


def tabular(rep, tier):
    """the tabular environment (windowed State): an episode after earlier completed / abandoned episodes, also on another fold,
    is bit-identical to the same episode on a freshly built environment"""
    from . import impl, tabular_check as tc
    nd = 47
    bd = [d for d in range(1, nd + 1) if (d - 1) % 7 < 5]
    n = 0
    for w, s in ((1, 0), (3, 0), (4, 2)):
        for tr in (None, "z-score"):
            p = {"dx": set(bd), "dy": set(bd), "w": w, "s": s, "start": 0, "end": 0, "fold": (30, 47)}
            for prefix in (("training-set", 3), ("test-set", 2), ("training-set", 99)):
                for target in ("training-set", "test-set"):
                    o1, env = impl.classify(lambda: tc.build(p, tr))
                    o2, ref = impl.classify(lambda: tc.build(p, tr))
                    n += 1
                    case = {"kind": "tabular-repro", "window": w, "stride": s, "transformer": tr, "prefix": list(prefix), "fold": target}
                    if o1 != "ok" or o2 != "ok":
                        rep.violation("reproducible", "reproducible/tabular/construct", "TradingEnvXY could not be built: %r" % (env,), case)
                        continue
                    # an earlier episode, abandoned after k steps (k = 99: run to the end)
                    r, obs = impl.classify(lambda: env.reset(prefix[0]))
                    k = 0
                    while r == "ok" and k < prefix[1]:
                        r, val = impl.classify(lambda: env.step(np.array([0.5, -0.25])))
                        k += 1
                        if r == "ok" and val[2]:
                            break
                    a = _tab_episode(env, target)
                    b = _tab_episode(ref, target)
                    if a != b:
                        i = next((j for j, (x, y) in enumerate(zip(a, b)) if x != y), min(len(a), len(b)))
                        rep.violation("reproducible", "reproducible/tabular/w%d" % w,
                                      "tabular environment (window %d, stride %s): after an earlier episode on %s (%s steps) the episode on %s "
                                      "differs from a freshly built environment at call %d: %r vs %r" % (
                                          w, s or None, prefix[0], prefix[1], target, i, a[i] if i < len(a) else None, b[i] if i < len(b) else None), case)
    rep.traces += n
    rep.evaluations += 2 * n
    rep.count("tabular_reproducibility_pairs", n)


def _tab_episode(env, fold):
    from . import impl
    out = []
    r, obs = impl.classify(lambda: env.reset(fold))
    if r != "ok":
        return [("reset", r, type(obs).__name__)]
    out.append(("reset", np.asarray(obs, dtype=float).tobytes().hex()))
    for k in range(6):
        a = np.array([0.5, -0.25]) if k % 2 == 0 else np.array([-0.25, 0.75])
        r, val = impl.classify(lambda: env.step(a))
        if r != "ok":
            out.append(("step", r, type(val).__name__))
            break
        out.append(("step", np.asarray(val[0], dtype=float).tobytes().hex(), hx(val[1]), bool(val[2]),
                    sorted((c.symbol, hx(q)) for c, q in env.broker.holdings_quantity.items())))
        if val[2]:
            break
    return out
