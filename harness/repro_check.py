"""C10, reproducibility on one environment: on Env.tla behaviours with resets anywhere (abandoned episodes, episodes ended by a
malformed action), the episode after the last reset must be bit-identical to the same episode on a freshly built environment.
Reuses the C04/C17 model families (features with history, latency, delay, folds, markov / warm-up resets)."""
import struct

import numpy as np

from . import tlaval, explore
from . import env_check, props_env


def hx(x):
    return struct.pack("<d", float(x)).hex()


def _snap(w, call, out, val):
    import copy
    from . import impl
    o = {"outcome": out}
    if out != "ok":
        return o
    env = w.env
    if call == "step":
        o["reward"] = hx(val[1])
        o["done"] = bool(val[2])
    o["now"] = str(env.now())
    o["delivered"] = [(e["kind"], e["id"], str(e["t"]), str(e["clk"]), str(e["gnow"])) for e in w.sink.entries]
    o["holdings"] = sorted((c.symbol, hx(q)) for c, q in env.broker.holdings_quantity.items())
    b = copy.deepcopy(env.broker)
    o1, v1 = impl.classify(lambda: b.net_liquidation_value(False))
    o["nlv"] = hx(v1) if o1 == "ok" else o1
    tr = env.broker.track_record
    o["track"] = [(str(tr[i].time), hx(tr[i].context_pre.nlv), hx(tr[i].context_post.nlv)) for i in range(len(tr))]
    # observation features with history: what the state and the features have recorded so far in this episode
    st = env.state
    o["state_history"] = [str(k) for k in (st.history or {})]
    o["feature_history"] = []
    for f in (st.features or []):
        if getattr(f, "save", False):
            h = f.history or {}
            o["feature_history"].append((f.name, [(str(k), np.asarray(v, dtype=float).tobytes().hex()) for k, v in h.items()]))
    o["exec"] = None if w.sink.exec is None else (sorted(w.sink.exec["alloc"].items()), str(w.sink.exec["stamp"]),
                                                  sorted((k, str(v)) for k, v in w.sink.exec["books"].items()))
    return o


def replay_chunk(ctx, texts):
    from . import replay_env
    out = {"n": 0, "ops": 0, "fails": [], "classes": {}, "sample": None}
    for text in texts:
        s = tlaval.parse_state(text)
        if s["ncalls"] != ctx["maxcalls"]:
            continue
        hist = list(s["hist"])
        resets = [i for i, r in enumerate(hist) if r["call"] == "reset" and r["out"] == "ok"]
        if len(resets) < 2 or resets[-1] == len(hist):
            continue
        cfg = s["cfg"]
        last = resets[-1]
        from .nolook_check import _obs_feature
        Obs = _obs_feature()
        w = replay_env.World(cfg, ctx["trade"], seed=3, extra_features=lambda ww: [Obs(ww.A, ww.B)])
        got = []
        for rec in hist:
            if rec["call"] == "reset":
                o, v = w.reset(rec["start"] or 1, rec["act"]["id"])
            else:
                o, v = w.step(rec["act"])
            got.append(_snap(w, rec["call"], o, v))
            out["ops"] += 1
        fresh = replay_env.World(cfg, ctx["trade"], seed=3, extra_features=lambda ww: [Obs(ww.A, ww.B)])
        bad = None
        for i, rec in enumerate(hist[last:]):
            if rec["call"] == "reset":
                o, v = fresh.reset(rec["start"] or 1, rec["act"]["id"])
            else:
                o, v = fresh.step(rec["act"])
            r = _snap(fresh, rec["call"], o, v)
            out["ops"] += 1
            if r != got[last + i]:
                diff = [k for k in r if r[k] != got[last + i].get(k)] or ["outcome"]
                bad = "after %s and a reset, call %d of the new episode differs from a freshly built environment in %s: %r vs %r" % (
                    "".join(x["call"][0] + ("!" if x["out"] != "ok" else "") for x in hist[:last]), i, diff[0],
                    got[last + i].get(diff[0]), r.get(diff[0]))
                break
        out["n"] += 1
        k = "".join(x["call"][0] for x in hist)
        out["classes"][k] = out["classes"].get(k, 0) + 1
        if bad and len(out["fails"]) < 30:
            out["fails"].append({"clause": "reproducible", "key": "reproducible/%s/lat%s" % (env_check._mode(cfg), "0" if cfg["lat"] == 0 else "N"),
                                 "detail": bad, "case": {"kind": "repro", "cfg": {k2: v for k2, v in cfg.items() if k2 != "part"},
                                                         "hist": [(x["call"], x["act"], x["out"]) for x in hist]}})
    return out


def check(rep, tier):
    ms = props_env.c04_models(tier, maxopt=2 if tier == "quick" else 3) + props_env.repro_models(tier)
    for m in ms:
        ctx = dict(m["ctx"])
        explore.explore_and_replay(rep, "repro-" + m["name"], m["module"], m["cfg"], ("harness.repro_check", "replay_chunk"), ctx,
                                   {"reproducible"}, m["invariants"], m["properties"], chunk=200)
