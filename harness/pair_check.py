"""C10 on EnvPair.tla: every interleaving of the calls of two environments (with resets at any time) is replayed on
two real TradingEnv instances living in one process; each environment's outputs are compared bit for bit with the
outputs of the same calls on a fresh environment run alone, and the episode after the last reset with a fresh
environment that runs only that episode."""
import copy
import struct
from fractions import Fraction as F

import numpy as np

from . import tlagen, tlaval, core, explore
from .tlagen import Rec
from .envfull_check import full_model, bars, DAY, CONTRACTS

CLAUSE_PROPS = {"isolation": ["C10"], "reproducible": ["C10"], "reset_residual": ["C10"], "spec": [],
                "pair_roll": ["C11"]}   # in the interleaved run, an environment holds another chain contract than its own lead
H = F(1, 2)
# each environment observes its portfolio weights through the library feature, declared with its own bounds
WB = {"A": 4.0, "B": 8.0}


def hx(x):
    return struct.pack("<d", float(x)).hex()


def pair_models(tier, clockscope="restored_on_entry"):
    # real ES chain around the March 2019 roll (see envfull_check.c11_models) + one ETF
    days = [1, 2, 3, 4, 10]
    grid = [36000 + DAY * d for d in days]
    ltd = [3 * DAY, 101 * DAY, 192 * DAY]
    exp = [11 * DAY, 109 * DAY, 200 * DAY]
    paths = {"S1": [8, 8, 12, 12, 8], "H19": [12, 12, 16, 12, 12], "M19": [12, 16, 16, 12, 8], "U19": [16, 16, 12, 12, 12]}
    ev = bars(grid, paths, {"S1": 0, "H19": 4, "M19": 4, "U19": 0})
    ev += [Rec(t=exp[0], kind="d", c="H19", bid=0, ask=0), Rec(t=exp[1], kind="d", c="M19", bid=0, ask=0),
           Rec(t=exp[2], kind="d", c="U19", bid=0, ask=0)]
    tg = [{"CH": H}, {"S1": H, "CH": -H}] if tier == "quick" else [{"CH": H}, {"S1": H, "CH": -H}, {}]
    cs = ["S1", "H19", "M19", "U19"]
    m = full_model("pair-chain", cs, ["S1", "CH"], grid, ev, tg, lats=(0,), delays=(0, 1), fees="free", maxsteps=3,
                   chain=["H19", "M19", "U19"], chain_ltd=ltd, chain_exp=exp, deposit=F(100000),
                   invariants=["IsolatedOutputs", "IsolatedState"], reset_anywhere=True, clockscope=clockscope,
                   extends="EnvPair", extra_plain={"MaxCalls": 5 if tier == "quick" else 6})
    return [m]


def _outputs(w, call, out, val):
    from . import impl
    env = w.env
    o = {"outcome": out}
    if out != "ok":
        o["error"] = type(val).__name__
        return o
    if call == "step":
        o["reward"] = hx(val[1])
        o["done"] = bool(val[2])
        r = val[3].get("_rebalancing") if isinstance(val[3], dict) else None
        o["trades"] = None if r is None else [(t.contract.symbol, hx(t.quantity), hx(t.acq_price), str(t.time)) for t in r.trades]
    obs = val[0] if call == "step" else val
    if isinstance(obs, dict):
        o["obs"] = sorted((k, np.asarray(v, dtype=float).tobytes().hex()) for k, v in obs.items() if k == "FeaturePortfolioWeight")
    o["now"] = str(env.now())
    o["holdings"] = sorted((c.symbol, hx(q)) for c, q in env.broker.holdings_quantity.items())
    b = copy.deepcopy(env.broker)
    o1, v1 = impl.classify(lambda: b.net_liquidation_value(False))
    o["nlv"] = hx(v1) if o1 == "ok" else o1
    tr = env.broker.track_record
    o["track"] = [(str(tr[i].time), hx(tr[i].context_pre.nlv), hx(tr[i].context_post.nlv),
                   sorted((c.symbol, hx(v)) for c, v in tr[i].allocation.items())) for i in range(len(tr))]
    return o


def _call(w, rec):
    from . import impl
    from tradingenv.broker.broker import EndOfEpisodeError
    if rec["call"] == "reset":
        return impl.classify(lambda: w.env.reset())
    a = w.action(rec["target"])
    try:
        return "ok", w.env.step(a)
    except EndOfEpisodeError as e:
        return "ended", e
    except Exception as e:  # noqa: BLE001
        return "error", e


def replay_chunk(ctx, texts):
    from . import replay_envfull
    from tradingenv.contracts import AbstractContract
    out = {"n": 0, "ops": 0, "fails": [], "classes": {}, "sample": None}
    for text in texts:
        s = tlaval.parse_state(text)
        sched = list(s["sched"])
        if len(sched) != ctx["maxcalls"]:
            continue
        hists = {"A": list(s["histA"]), "B": list(s["histB"])}
        cfgs = {"A": s["cfgA"], "B": s["cfgB"]}
        saved = AbstractContract.now
        bad = None
        bad_roll = None
        try:
            ws = {k: replay_envfull.World(ctx["model"], cfgs[k], "simple", wbounds=WB[k]) for k in "AB"}
            pos = {"A": 0, "B": 0}
            got = {"A": [], "B": []}
            for who in sched:
                rec = hists[who][pos[who]]
                pos[who] += 1
                o, v = _call(ws[who], rec)
                got[who].append(_outputs(ws[who], rec["call"], o, v))
                out["ops"] += 1
                if bad_roll is None and o == "ok" and rec["call"] == "step" and rec["out"] == "ok" and isinstance(rec.get("pos"), dict):
                    from .impl import frac, close
                    p_now = ws[who].pos()
                    wrong = [n for n in p_now if not close(p_now[n], frac(rec["pos"][n]))]
                    if wrong:
                        bad_roll = ("pair_roll", "environment %s (schedule %s, its own clock at %s): positions %s, by its own clock the "
                               "specification gives %s" % (who, "".join(sched), ws[who].env.now(), p_now,
                                                           {n: str(frac(v)) for n, v in rec["pos"].items()}))
            for who in "AB":
                if bad:
                    break
                if not hists[who]:
                    continue
                # (1) the same calls on a fresh environment run alone
                AbstractContract.now = saved
                solo = replay_envfull.World(ctx["model"], cfgs[who], "simple", wbounds=WB[who])
                ref = []
                for rec in hists[who]:
                    o, v = _call(solo, rec)
                    ref.append(_outputs(solo, rec["call"], o, v))
                    out["ops"] += 1
                for i, (g, r) in enumerate(zip(got[who], ref)):
                    if g != r:
                        diff = [k for k in g if g[k] != r.get(k)] or list(r)
                        bad = ("isolation", "environment %s, call %d (%s): %s differs between the interleaved run %r and the "
                               "run alone %r (schedule %s)" % (who, i, hists[who][i]["call"], diff[0], g.get(diff[0]), r.get(diff[0]), "".join(sched)))
                        break
                if bad:
                    break
                # (2) the episode after the last reset on a fresh environment that runs only that episode
                last = max(i for i, rec in enumerate(hists[who]) if rec["call"] == "reset")
                if last > 0:
                    AbstractContract.now = saved
                    fresh = replay_envfull.World(ctx["model"], cfgs[who], "simple", wbounds=WB[who])
                    for i, rec in enumerate(hists[who][last:]):
                        o, v = _call(fresh, rec)
                        r = _outputs(fresh, rec["call"], o, v)
                        out["ops"] += 1
                        if r != got[who][last + i]:
                            diff = [k for k in r if r[k] != got[who][last + i].get(k)]
                            bad = ("reset_residual", "environment %s: after %d earlier call(s) and a reset, call %d of the new episode "
                                   "differs from a freshly built environment in %s" % (who, last, i, diff[0]))
                            break
                if bad:
                    break
        finally:
            AbstractContract.now = saved
        out["n"] += 1
        k = "".join(sched)
        out["classes"][k] = out["classes"].get(k, 0) + 1
        if out["sample"] is None:
            out["sample"] = {"schedule": k, "A": [(r["call"], r["target"]) for r in hists["A"]],
                             "B": [(r["call"], r["target"]) for r in hists["B"]]}
        for bad in [b for b in (bad, bad_roll) if b]:
          if len(out["fails"]) < 30:
            out["fails"].append({"clause": bad[0], "key": "%s/%s" % (bad[0], "chain"), "detail": bad[1],
                                 "case": {"kind": "pair", "schedule": k, "A": hists["A"], "B": hists["B"],
                                          "lat": cfgs["A"]["lat"], "delayA": cfgs["A"]["delay"], "delayB": cfgs["B"]["delay"]}})
    return out


def c10(tier, seed):
    rep = core.Report("C10", tier, seed)
    rep.assumptions = [
        "two environments with the same data (ETF + real ES chain around a roll) but independent delays and actions, at most "
        "5 calls in total (6 thorough), every interleaving, resets at any point (abandoned episodes)",
        "bit-for-bit comparison of rewards, done flags, trades, holdings, NLV and track records with the same calls run alone "
        "in the same process on a fresh environment, and of the episode after the last reset with a fresh environment",
        "threads, and environments sharing one Transmitter or one IState instance, are out of scope",
    ]
    for m in pair_models(tier):
        ctx = dict(m["ctx"])
        ctx["maxcalls"] = 5 if tier == "quick" else 6
        explore.explore_and_replay(rep, m["name"], m["module"], m["cfg"], ("harness.pair_check", "replay_chunk"), ctx,
                                   {c for c, ps in CLAUSE_PROPS.items() if "C10" in ps}, m["invariants"], m["properties"],
                                   chunk=60, workers=8, timeout=3600)
    from . import repro_check
    repro_check.check(rep, tier)
    repro_check.tabular(rep, tier)
    return rep.finish()
