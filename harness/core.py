"""Shared plumbing of the checks: report / evidence / known findings / exit codes.

Exit codes: 0 property held on everything explored (known findings are printed as KNOWN-FINDING),
            1 at least one VIOLATION not listed as known,
            2 machinery failure (TLC error, overflow, parse error, harness crash) - never a verdict.
"""
import json
import os
import subprocess
import sys
import time
import traceback

ROOT = os.path.dirname(os.path.dirname(os.path.abspath(__file__)))
# seeded trial runs (tools/) point these at scratch directories so that they never overwrite the evidence of the unchanged tree
EVIDENCE_DIR = os.environ.get("VERIF_EVIDENCE_DIR") or os.path.join(ROOT, "evidence")
REPLAY_DIR = os.environ.get("VERIF_REPLAY_DIR") or os.path.join(ROOT, "out", "replays")
KNOWN_FILE = os.path.join(ROOT, "known_findings.json")


def load_known():
    try:
        with open(KNOWN_FILE) as f:
            return json.load(f).get("findings", [])
    except FileNotFoundError:
        return []


def repo_head():
    repo = os.environ.get("VERIF_REPO", "/repo")
    try:
        h = subprocess.run(["git", "-C", repo, "rev-parse", "HEAD"], stdout=subprocess.PIPE,
                           stderr=subprocess.DEVNULL, text=True).stdout.strip()
        d = subprocess.run(["git", "-C", repo, "status", "--porcelain", "--untracked-files=no"],
                           stdout=subprocess.PIPE, stderr=subprocess.DEVNULL, text=True).stdout.strip()
        return h + ("+dirty" if d else "")
    except Exception:  # noqa: BLE001
        return "unknown"


class Report:
    def __init__(self, prop, tier, seed):
        self.prop = prop
        self.tier = tier
        self.seed = seed
        self.t0 = time.time()
        self.states = 0
        self.transitions = 0
        self.traces = 0
        self.evaluations = 0
        self.samples = []
        self.models = []            # per TLC run: name, generated, distinct, depth, wall, invariants
        self.coverage = {}          # action / class -> count
        self.violations = []        # dicts: clause, key, detail, case
        self.drift = []
        self.assumptions = []
        self.extra = {}
        self.exhaustive = False
        self.level = "model_checking"

    # ------------------------------------------------------------------ accumulation
    def add_model(self, name, res, invariants=(), properties=()):
        self.states += res.distinct
        self.transitions += res.generated
        self.models.append({"model": name, "states_generated": res.generated, "distinct": res.distinct,
                            "depth": res.depth, "wall_s": round(res.wall, 2),
                            "invariants": list(invariants), "action_properties": list(properties)})

    def count(self, key, n=1):
        self.coverage[key] = self.coverage.get(key, 0) + n

    def sample(self, s, limit=4):
        if len(self.samples) < limit:
            self.samples.append(s)

    def violation(self, clause, key, detail, case=None):
        self.violations.append({"clause": clause, "key": key, "detail": detail, "case": case})

    # ------------------------------------------------------------------ end of run
    def finish(self):
        known = [k for k in load_known() if k.get("property") == self.prop and k.get("status") == "known"]
        unknown = []
        seen_known = {}
        for v in self.violations:
            hit = None
            for k in known:
                if k["key"] == v["key"]:
                    hit = k
                    break
            if hit:
                seen_known.setdefault(hit["key"], (hit, 0))
                seen_known[hit["key"]] = (hit, seen_known[hit["key"]][1] + 1)
            else:
                unknown.append(v)
        for key, (k, cnt) in seen_known.items():
            print("KNOWN-FINDING: property=%s %s [key=%s, %d occurrence(s) this run]" % (self.prop, k["what"], key, cnt))
        printed = set()
        os.makedirs(os.path.join(REPLAY_DIR, self.prop), exist_ok=True)
        n = 0
        for v in unknown:
            if v["key"] in printed:
                continue
            printed.add(v["key"])
            n += 1
            path = os.path.join(REPLAY_DIR, self.prop, "%d.json" % n)
            with open(path, "w") as f:
                json.dump({"property": self.prop, "clause": v["clause"], "key": v["key"], "detail": v["detail"],
                           "case": v["case"], "repo_head": repo_head(), "tier": self.tier, "seed": self.seed},
                          f, indent=1, default=str)
            print("VIOLATION property=%s replay=%s" % (self.prop, path))
            print("  clause=%s key=%s" % (v["clause"], v["key"]))
            print("  %s" % (v["detail"],))
            if n >= 10:
                break
        self.write_evidence(len(unknown), len(self.violations) - len(unknown))
        return 1 if unknown else 0

    def write_evidence(self, n_unknown, n_known):
        os.makedirs(EVIDENCE_DIR, exist_ok=True)
        cov = {
            "states": int(self.states),
            "transitions": int(self.transitions),
            "traces_validated_against_impl": int(self.traces),
            "samples": self.samples or ["(none)"],
            "evaluations": int(self.evaluations or self.traces),
            "tlc_models": self.models,
            "per_class_counts": self.coverage,
            "exhaustive": bool(self.exhaustive),
            "repo_head": repo_head(),
        }
        cov.update(self.extra)
        ev = {
            "property_id": self.prop,
            "tier": self.tier,
            "seed": int(self.seed),
            "level": self.level,
            "coverage": cov,
            "assumptions": self.assumptions,
            "wall_s": round(time.time() - self.t0, 2),
            "violations": int(n_unknown),
            "known_findings_seen": int(n_known),
            "drift": self.drift[:20],
        }
        with open(os.path.join(EVIDENCE_DIR, self.prop + ".json"), "w") as f:
            json.dump(ev, f, indent=1, default=str)


def main_wrapper(fn):
    """Run fn() -> exit code; turn crashes into exit 2 (machinery failure, never a verdict)."""
    try:
        code = fn()
    except SystemExit:
        raise
    except Exception:  # noqa: BLE001
        traceback.print_exc()
        print("MACHINERY-FAILURE: the check itself failed; this is not a verdict on the property")
        sys.exit(2)
    sys.exit(code)
