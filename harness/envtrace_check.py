"""Code -> spec on the repository's own tests: run allow-listed repository tests under the recording pytest plugin and let
TLC validate every recorded episode against EnvTrace.tla (structural clauses of C04 / C07 / C09)."""
import json
import os
import subprocess
import sys

from . import tlc, tlagen, tlaval, core

TESTS_QUICK = ["tests/regression/test_env.py::TestSimpleExamples", "tests/regression/test_env.py::TestHighFrequencyData",
               "tests/regression/test_env.py::TestETF::test_cash_only",
               "tests/regression/test_env.py::TestStateAndFeatureHistory::test_features_history_when_episode_length_is_provided"]
TESTS_THOROUGH = ["tests/regression/test_env.py", "tests/integration/test_env.py::TestTradingEnvETF::test_sample_episode",
                  "tests/integration/test_env.py::TestTradingEnvFutures", "tests/integration/test_env.py::TestTradingEnvXY"]

CLAUSE_OF = {"order": "order", "clock": "clock", "newdate": "delivery", "stamp": "stamp", "ended": "ended"}


def validate_repo_tests(rep, tier, owned):
    repo = os.environ.get("VERIF_REPO", "/repo")
    wd = tlc.new_workdir(rep.prop + "-envtrace")
    path = os.path.join(wd, "envtraces.json")
    env = dict(os.environ)
    env.update({"TRADINGENV_VERIF": "1", "TRADINGENV_VERIF_TRACE": path,
                "PYTHONPATH": core.ROOT + os.pathsep + repo + os.pathsep + env.get("PYTHONPATH", "")})
    tests = TESTS_QUICK if tier == "quick" else TESTS_THOROUGH
    p = subprocess.run([sys.executable, "-m", "pytest", "-q", "-p", "no:cacheprovider", "--no-cov", "-p", "harness.pytest_plugin"] + tests,
                       cwd=repo, env=env, stdout=subprocess.PIPE, stderr=subprocess.STDOUT, text=True, timeout=3600)
    try:
        if not os.path.exists(path):
            raise tlc.TLCFailure("the recording plugin wrote no trace file:\n" + p.stdout[-2000:])
        with open(path) as f:
            traces = json.load(f)
        traces = [t for t in traces if t["calls"]]
        if not traces:
            raise tlc.TLCFailure("no environment episode was recorded from the repository's tests")
        expected = sum(len(t["calls"]) + 1 for t in traces)
        module = tlagen.mc_module("MCT", "EnvTrace", {})
        cfg = "CONSTANTS\n ExpectedStates = %d\nINIT Init\nNEXT Next\nINVARIANT Accepted\nPOSTCONDITION AllConsumed\nCHECK_DEADLOCK FALSE\n" % expected
        res = tlc.run("MCT", module, cfg, workers=1, env={"TRACE_FILE": path}, tag=rep.prop + "-envtracev", timeout=3600, heap="8g")
    finally:
        tlc.rm_workdir(wd)
    try:
        rep.add_model("repository tests (recorded episodes)", res, ["Accepted"], [])
        if res.violated:
            tr = tlaval.parse_trace(res.trace or "")
            lastst = tr[-1][1] if tr else {}
            tid, l = lastst.get("tid"), lastst.get("l")
            verdict = list(lastst.get("verdict") or ["?"])
            t = traces[tid - 1] if tid else {"test": "?", "calls": []}
            call = t["calls"][(l or 2) - 2] if t["calls"] else {}
            clause = CLAUSE_OF.get(verdict[0], "order")
            detail = ("episode recorded from %s rejected by EnvTrace.tla at call %s (%s): clause %s; notifications of the call: %s" % (
                t["test"], (l or 2) - 2, call.get("call"), verdict[0], call.get("log", [])[:8]))
            if clause in owned:
                rep.violation(clause, "repo-trace/%s" % verdict[0], detail, {"kind": "env-trace", "test": t["test"], "call": call})
            else:
                rep.drift.append({"clause": clause, "key": "repo-trace/%s" % verdict[0], "detail": detail})
        else:
            rep.traces += len(traces)
            rep.evaluations += expected - len(traces)
            rep.count("repo_test_episodes_accepted", len(traces))
            rep.sample({"repo_test_episode": traces[0]["test"], "calls": len(traces[0]["calls"]),
                        "first_call": traces[0]["calls"][0]["log"][:4]})
    finally:
        tlc.rm_workdir(res.workdir)
