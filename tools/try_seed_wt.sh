#!/bin/sh
# usage: tools/try_seed_wt.sh <patch file> <property> [tier]
# like try_seed.sh but on a scratch worktree of /repo HEAD (used while /repo itself is busy); the worktree is removed afterwards
patch="$1"; prop="$2"; tier="${3:-quick}"; wt=/tmp/wt/mut_$$
git -C /repo worktree add -q --detach $wt HEAD || exit 2
cd $wt || exit 2
if ! git apply --3way "$patch" 2>/dev/null && ! git apply "$patch"; then echo "PATCH DOES NOT APPLY: $patch"; cd /; git -C /repo worktree remove --force $wt; exit 3; fi
cd /verif && VERIF_EVIDENCE_DIR=/verif/out/seedrun/try_$$ VERIF_REPLAY_DIR=/verif/out/seedrun/try_$$/replays VERIF_REPO=$wt ./check "$prop" --tier "$tier" > /tmp/try_seed_$$.out 2>&1
code=$?
git -C /repo worktree remove --force $wt
grep -E "^VIOLATION|^KNOWN|clause=|MACHINERY" /tmp/try_seed_$$.out | head -6
sed -n '/clause=/{n;p}' /tmp/try_seed_$$.out | cut -c1-300 | head -2
rm -f /tmp/try_seed_$$.out
echo "exit=$code"
