#!/bin/sh
# usage: tools/verify_seed.sh <prop> <A|B>   -> prints one result line; uses a scratch worktree of /repo HEAD
prop="$1"; x="$2"; d=${SEEDDIR:-/tmp/seeds}/$prop; wt=/tmp/wt/verify_${prop}_$x
git -C /repo worktree remove --force $wt 2>/dev/null
git -C /repo worktree add -q --detach $wt HEAD || exit 2
cd $wt || exit 2
demo=$d/demo_$x.py
PYTHONPATH=$wt VERIF_REPO=$wt /venv/bin/python $demo > $d/verify_${x}_pristine.log 2>&1; p=$?
if git apply --3way $d/$x.patch >/dev/null 2>&1 || git apply $d/$x.patch >/dev/null 2>&1; then ap=ok; else ap=FAIL; fi
PYTHONPATH=$wt VERIF_REPO=$wt /venv/bin/python $demo > $d/verify_${x}_patched.log 2>&1; q=$?
/venv/bin/python -m pytest -q -p no:cacheprovider --no-cov --timeout=900 -x tests/unit tests/integration tests/regression > $d/verify_${x}_tests.log 2>&1; t=$?
tail -1 $d/verify_${x}_tests.log > $d/verify_${x}_tests.tail
echo "$prop $x apply=$ap demo_pristine=$p demo_patched=$q tests_exit=$t $(cat $d/verify_${x}_tests.tail)"
cd / && git -C /repo worktree remove --force $wt
