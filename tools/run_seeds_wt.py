#!/usr/bin/env python3
"""Like run_seeds.py but on scratch worktrees of /repo HEAD (several seeds at a time, /repo itself untouched); evidence and
replay files of these trial runs go to /verif/out/seedrun/<id>/.   usage: tools/run_seeds_wt.py [-jN] [tier] id ..."""
import json, os, shutil, subprocess, sys, time
from concurrent.futures import ThreadPoolExecutor
ROOT = "/verif/seeded"
args = sys.argv[1:]
jobs = 3
for a in list(args):
    if a.startswith("-j"):
        jobs = int(a[2:]); args.remove(a)
tier = "quick"
if args and args[0] in ("quick", "thorough"):
    tier = args.pop(0)
ids = args


def one(sid):
    d = os.path.join(ROOT, sid)
    meta = json.load(open(os.path.join(d, "meta.json")))
    prop = meta["property"]
    wt = "/tmp/wt/seedrun_%s" % sid
    scratch = "/verif/out/seedrun/%s" % sid
    subprocess.run(["git", "-C", "/repo", "worktree", "remove", "--force", wt], capture_output=True)
    os.makedirs("/tmp/wt", exist_ok=True)
    os.makedirs(scratch, exist_ok=True)
    subprocess.run(["git", "-C", "/repo", "worktree", "add", "-q", "--detach", wt, "HEAD"], check=True)
    patch = os.path.join(d, "patch.diff")
    ok = subprocess.run(["git", "-C", wt, "apply", "--3way", patch], capture_output=True).returncode == 0 or \
        subprocess.run(["git", "-C", wt, "apply", patch], capture_output=True).returncode == 0
    res = {"id": sid, "property": prop, "tier": tier, "applied": ok, "tree": "scratch worktree of /repo HEAD"}
    if ok:
        env = dict(os.environ, VERIF_REPO=wt, VERIF_EVIDENCE_DIR=scratch, VERIF_REPLAY_DIR=os.path.join(scratch, "replays"))
        t0 = time.time()
        p = subprocess.run(["./check", prop, "--tier", tier], cwd="/verif", capture_output=True, text=True, env=env)
        res["exit"] = p.returncode
        res["wall_s"] = round(time.time() - t0, 1)
        lines = [l for l in p.stdout.splitlines() if l.startswith("VIOLATION") or l.strip().startswith("clause=") or l.startswith("MACHINERY")]
        res["first_lines"] = lines[:6]
        res["detected"] = p.returncode == 1
        if p.returncode == 2:
            res["stderr_tail"] = (p.stdout + p.stderr)[-1500:]
    subprocess.run(["git", "-C", "/repo", "worktree", "remove", "--force", wt], capture_output=True)
    shutil.rmtree(scratch, ignore_errors=True)
    json.dump(res, open(os.path.join(d, "result.json"), "w"), indent=1)
    print(sid, "detected" if res.get("detected") else "MISSED" if ok else "PATCH-FAILED", res.get("exit"), res.get("wall_s"), (res.get("first_lines") or [""])[1:2], flush=True)


with ThreadPoolExecutor(jobs) as ex:
    list(ex.map(one, ids))
rows = []
for sid in sorted(os.listdir(ROOT)):
    f = os.path.join(ROOT, sid, "result.json")
    if os.path.exists(f):
        r = json.load(open(f)); m = json.load(open(os.path.join(ROOT, sid, "meta.json")))
        cl = [l.strip() for l in r.get("first_lines", []) if "clause=" in l][:2]
        rows.append("| %s | %s | %s | %s | %s |" % (sid, r["property"], "yes" if r.get("detected") else "NO", "; ".join(cl), (m.get("summary") or "")[:110].replace("|", "/")))
open(os.path.join(ROOT, "RESULTS.md"), "w").write("# Seeded changes vs checks (tier of last run per seed)\n\n| seed | property | detected | clauses | change |\n|---|---|---|---|---|\n" + "\n".join(rows) + "\n")
