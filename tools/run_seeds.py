#!/usr/bin/env python3
"""Apply each seeded change to /repo in turn, run the owning property's check, restore /repo, and record the outcome
in /verif/seeded/<id>/result.json and /verif/seeded/RESULTS.md.   usage: tools/run_seeds.py [tier] [id ...]"""
import json, os, subprocess, sys, time
ROOT = "/verif/seeded"
tier = sys.argv[1] if len(sys.argv) > 1 and sys.argv[1] in ("quick", "thorough") else "quick"
ids = [a for a in sys.argv[1:] if a not in ("quick", "thorough")] or sorted(d for d in os.listdir(ROOT) if os.path.isdir(os.path.join(ROOT, d)))
registered = {c["property_id"] for c in json.load(open("/verif/MANIFEST.json"))["checks"]}
assert subprocess.run(["git", "-C", "/repo", "diff", "--quiet"]).returncode == 0, "/repo has local changes"
for sid in ids:
    d = os.path.join(ROOT, sid)
    meta = json.load(open(os.path.join(d, "meta.json")))
    prop = meta["property"]
    if prop not in registered:
        print(sid, "property not registered yet"); continue
    patch = os.path.join(d, "patch.diff")
    ok = subprocess.run(["git", "-C", "/repo", "apply", "--3way", patch], capture_output=True).returncode == 0 or \
        subprocess.run(["git", "-C", "/repo", "apply", patch], capture_output=True).returncode == 0
    res = {"id": sid, "property": prop, "tier": tier, "applied": ok}
    if ok:
        t0 = time.time()
        p = subprocess.run(["./check", prop, "--tier", tier], cwd="/verif", capture_output=True, text=True)
        res["exit"] = p.returncode
        res["wall_s"] = round(time.time() - t0, 1)
        lines = [l for l in p.stdout.splitlines() if l.startswith("VIOLATION") or l.strip().startswith("clause=") or l.startswith("MACHINERY")]
        res["first_lines"] = lines[:6]
        res["detected"] = p.returncode == 1
        if p.returncode == 2:
            res["stderr_tail"] = (p.stdout + p.stderr)[-1500:]
    subprocess.run(["git", "-C", "/repo", "reset", "-q", "--hard", "HEAD"])
    json.dump(res, open(os.path.join(d, "result.json"), "w"), indent=1)
    print(sid, "detected" if res.get("detected") else "MISSED" if ok else "PATCH-FAILED", res.get("exit"), res.get("wall_s"), (res.get("first_lines") or [""])[1:2])
# summary
rows = []
for sid in sorted(os.listdir(ROOT)):
    f = os.path.join(ROOT, sid, "result.json")
    if os.path.exists(f):
        r = json.load(open(f)); m = json.load(open(os.path.join(ROOT, sid, "meta.json")))
        cl = [l.strip() for l in r.get("first_lines", []) if "clause=" in l][:2]
        rows.append("| %s | %s | %s | %s | %s |" % (sid, r["property"], "yes" if r.get("detected") else "NO", "; ".join(cl), (m.get("summary") or "")[:110].replace("|", "/")))
open(os.path.join(ROOT, "RESULTS.md"), "w").write("# Seeded changes vs checks (tier of last run per seed)\n\n| seed | property | detected | clauses | change |\n|---|---|---|---|---|\n" + "\n".join(rows) + "\n")
