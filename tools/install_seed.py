#!/usr/bin/env python3
"""usage: tools/install_seed.py <seeddir> <wave> <prop> <X> <first_try: detected|missed|crashed> [verify line]
copies a sub-agent's verified seed into /verif/seeded/<prop>-<X>/ (patch.diff, demo.py, meta.json)"""
import json, os, shutil, subprocess, sys
sd, wave, prop, x, first = sys.argv[1:6]
d = os.path.join(sd, prop)
out = "/verif/seeded/%s-%s" % (prop, x)
os.makedirs(out, exist_ok=True)
shutil.copy(os.path.join(d, x + ".patch"), os.path.join(out, "patch.diff"))
shutil.copy(os.path.join(d, "demo_%s.py" % x), os.path.join(out, "demo.py"))
m = json.load(open(os.path.join(d, "meta_%s.json" % x)))
log = os.path.join(d, "first_try_%s.log" % x)
vline = sys.argv[6] if len(sys.argv) > 6 else (open(log).readline().strip() if os.path.exists(log) else "")
head = subprocess.run(["git", "-C", "/repo", "rev-parse", "--short", "HEAD"], capture_output=True, text=True).stdout.strip()
meta = {"id": "%s-%s" % (prop, x), "property": prop, "wave": int(wave), "summary": m.get("summary"), "needs": m.get("needs"),
        "files": m.get("files"),
        "origin": "written by an independent sub-agent (wave %s) that saw only the property text, one paragraph per earlier change "
                  "of that property and a scratch worktree of /repo" % wave,
        "first_try": "%s (run unmodified against the machinery as committed at the time, /repo at %s)" % (first, head),
        "verified_on_repo_head": head,
        "verification": {"what_i_ran": "SEEDDIR=%s tools/verify_seed.sh %s %s" % (sd, prop, x), "result": vline}}
json.dump(meta, open(os.path.join(out, "meta.json"), "w"), indent=1)
print("installed", out)
