#!/bin/sh
# usage: tools/try_seed.sh <patch file> <property> [tier]
# applies the patch to /repo, runs the check, always restores /repo
patch="$1"; prop="$2"; tier="${3:-quick}"
cd /repo || exit 2
if ! git diff --quiet; then echo "/repo has local changes; refusing"; exit 2; fi
if ! git apply --3way "$patch" 2>/dev/null && ! git apply "$patch"; then echo "PATCH DOES NOT APPLY: $patch"; git reset -q --hard HEAD; exit 3; fi
cd /verif && ./check "$prop" --tier "$tier" > /tmp/try_seed.out 2>&1
code=$?
git -C /repo reset -q --hard HEAD
grep -E "^VIOLATION|^KNOWN|clause=|MACHINERY" /tmp/try_seed.out | head -8
sed -n '/clause=/{n;p}' /tmp/try_seed.out | cut -c1-300 | head -3
echo "exit=$code"
